#!/venv/bin/python
"""Regenerates MANIFEST.json from the table below (keeps it valid at all times)."""
import json, os
HERE = os.path.dirname(os.path.abspath(__file__))
PY = "/venv/bin/python /verif/run.py"

CHECKS = {
 "C01": dict(engine="ENUM+GRAPH", design="4 (tokenizer family)",
   technique="bounded-exhaustive enumeration of all (parameter tuple x stream<=L) executions of the real tokenizer; identity-carrying frames; RefTok closure + transition cover",
   text="Every accepted parameter tuple with max_length<=4 (quick; <=6 thorough) x every stream of <=10 (<=14) frames is executed on the real StreamTokenizer in generator and callback mode with frames that carry their own identity; each token must be the stream's own frame objects at start..end, ordered and disjoint. String/DataValidator and PCM/AudioEnergyValidator frames are rotated in. Exhaustive within the bound, which covers every control situation of the automaton for these tuples.",
   note="Trusted: the 60-line monitor in vlib/tokmodel.py. Bound: stream length and max_length; larger tuples only through the transition-cover stage."),
 "C02": dict(engine="ENUM+GRAPH", design="4 (tokenizer family)",
   technique="bounded-exhaustive enumeration of (tuple x stream) executions + full accept/reject table of the constructor over a signed integer grid",
   text="Same exploration as C01 with the length oracle (no token > max_length; a short token only directly after a token of max_length frames and never in strict mode), plus all 230 400 integer tuples of the signed grid for the constructor's ValueError decision.",
   note="Trusted: check_c02 and accepted() in vlib/tokmodel.py."),
 "C03": dict(engine="ENUM+GRAPH", design="4 (tokenizer family)",
   technique="bounded-exhaustive enumeration of (tuple x stream) executions with a silence-run monitor that carries runs across cuts",
   text="Same exploration with the silence oracle: per token at least one valid frame, starts valid unless it continues a cut token, ends valid when dropping and not cut, longest invalid run (counting the run carried over from a cut predecessor) within max_continuous_silence / max(..., init_max_silence).",
   note="Trusted: check_c03 in vlib/tokmodel.py; validity is re-derived from the delivered frames themselves."),
 "C04": dict(engine="ENUM+GRAPH", design="4 (tokenizer family)",
   technique="bounded-exhaustive comparison with a declarative whole-stream segmentation; explicit-state closure of the incremental reference automaton and W-method transition cover replayed on the implementation",
   text="For init_min<=1 the delivered (start,end) list must equal the greedy segmentation computed by a declarative whole-stream rule, for every tuple x stream in the bound; the incremental model RefTok is checked against the declarative rule, explored to closure, and every transition + all suffixes of length<=3 (4) is replayed on the real tokenizer for max_length up to 7 (10).",
   note="Trusted: segment() and RefTok in vlib/tokmodel.py (cross-checked against each other on every run). Completeness beyond the bound assumes the implementation has at most d-1 more control states than RefTok."),
 "C08": dict(engine="ENUM", design="4 (tokenizer family)",
   technique="bounded-exhaustive enumeration with an instrumented source: reads counted at every hand-over, all prefixes of every stream compared, three delivery modes",
   text="Every (tuple x stream) case is run in generator mode on a counting source; at each hand-over the number of frames read must be exactly the deciding frame (cut: the token's last frame; silence: the (max_silence+1)-th silent frame) or EOF; EOF is requested once; list/generator/callback agree; for every cut point k the prefix's tokens equal the tokens decided within k frames plus at most one shorter flush token.",
   note="Trusted: check_c08_timing/check_prefix in vlib/tokmodel.py. split() laziness is covered by chk_split (C05) where claimed."),
 "C12": dict(engine="SCHED", design="3.3, 4 (C12-C14)",
   technique="stateless model checking of the real worker threads under a controlled scheduler: all interleavings at queue/start/join granularity (state-cached DFS, persistent-set reduction for local steps), all timeout firings up to K, line-granularity schedules with bounded preemptions",
   text="The real TokenizerWorker and observer threads (recording observers, PrintWorker) run under a baton scheduler that owns Queue.put/get/get_nowait, Thread.start/join. For every stream of <=4 (5) windows x 5 (8) observer sets, every interleaving and every pattern of <=2 (3) queue-wait timeouts is executed; each must end with all threads finished by themselves, no crash, and every observer having processed exactly split()'s detections once, in order, ids 1..n equal to the worker's detections list. A line-level pass (every line of workers.py a scheduling point, <=1 (2) preemptions) checks the assumption that threads interact only through queues.",
   note="Trusted: vlib/sched.py (scheduler, replay-determinism self-test on every exploration, failures re-executed before being reported). Not modelled: bytecode-level preemption inside a line; more than K timeouts; real time."),
 "C13": dict(engine="SCHED", design="3.3, 4 (C12-C14)",
   technique="stateless model checking of reader thread vs writer thread (StreamSaverWorker) and the file-writing observers under all interleavings, cache sizes and timeout firings; preemption-bounded line-level pass",
   text="Tokenizer reading through the real StreamSaverWorker (its writer is a controlled thread) with joiner and region-saver observers: every stream of <=4 (5) windows x cache sizes {0, 1 block, 1.5 blocks, never} x every interleaving x <=1 (2) timeouts; after termination the saved wav must hold exactly the blocks the wrapped reader produced (= the blocks the tokenizer saw) with the source's parameters, the joiner's file must equal split_and_join_with_silence(), and there must be exactly one correctly named region file per detection holding its audio.",
   note="Trusted: vlib/sched.py and the oracle in vlib/chk_workers.py; files are compared byte for byte via the wave module. Line-level pass bounded at 2 preemptions on the 2-block stream."),
 "C14": dict(engine="SCHED", design="3.3, 4 (C12-C14)",
   technique="stateless model checking with the stop as one more interleaved step: stop_all() racing the running threads at every position; the real cmdline.main with a KeyboardInterrupt alternative at every sleep",
   text="main = start_all(); stop_all(): because stop_all is main's next step, every placement of the stop relative to every read/put/get of the other threads is explored (state-cached, <=1 (2) timeouts). Second harness: the real cmdline.main(argv) with sleep as a scheduling point and Ctrl-C arriving in any sleep. Oracle: all threads end, no crash, and the observers' detections / printed lines / saved files equal split() of exactly the k blocks that were read, taken as a complete stream.",
   note="Trusted: vlib/sched.py. Ctrl-C is modelled only inside the main loop's sleep (not during start-up or during the shutdown path itself)."),
}

NOT_YET = {}
for i in range(1, 21):
    pid = "C%02d" % i
    if pid not in CHECKS:
        NOT_YET[pid] = "check not built yet in this revision of /verif (planned, see DESIGN.md section 4)"

def main():
    checks = []
    for pid in sorted(CHECKS):
        c = CHECKS[pid]
        checks.append({
            "property_id": pid,
            "quick_cmd": "%s %s --tier quick" % (PY, pid),
            "thorough_cmd": "%s %s --tier thorough" % (PY, pid),
            "evidence_file": "/verif/evidence/%s.json" % pid,
            "replay_cmd_template": "%s %s --replay {path}" % (PY, pid),
            "engine": c["engine"],
            "level_claimed": {"category": "model_checking", "text": c["text"], "design_ref": "DESIGN.md section " + c["design"]},
            "level_note": c["note"],
            "technique": c["technique"],
        })
    m = {
        "version": 1,
        "setup_cmd": "mkdir -p /verif/evidence /verif/replays",
        "hooks": {
            "guard": "AUDITOK_VERIF",
            "enable": "none needed: every seam is interposed from outside at run time (module globals, class attributes, DataSource/AudioSource interfaces); no source commit carries a hook",
            "baseline_off_cmd": "cd /repo && /venv/bin/python -m pytest -ra -q -p no:cacheprovider --timeout=900 --continue-on-collection-errors",
            "source_commits": [],
            "add_only": True,
        },
        "engines": [
            {"name": "ENUM", "path": "/verif/vlib", "serves_properties": sorted(k for k in CHECKS if CHECKS[k]["engine"] != "SCHED"), "kind_free_text": "bounded-exhaustive enumeration of executions of the real code against reference models; explicit-state search with validated merging"},
            {"name": "SCHED", "path": "/verif/vlib/sched.py", "serves_properties": sorted(k for k in CHECKS if CHECKS[k]["engine"] == "SCHED"), "kind_free_text": "controlled scheduler for the real worker threads: exhaustive interleavings and timeout firings, state-cached; preemption-bounded line-level pass"},
        ],
        "checks": checks,
        "not_applicable": [{"property_id": k, "reason": v} for k, v in sorted(NOT_YET.items())],
        "notes": "All checks import auditok from /repo's working tree (VERIF_REPO overrides) and run with /venv/bin/python. Fixes of genuine defects are 'fix:' commits in /repo listed in /verif/known_findings.json.",
    }
    with open(os.path.join(HERE, "MANIFEST.json"), "w") as fp:
        json.dump(m, fp, indent=1)
        fp.write("\n")

if __name__ == "__main__":
    main()

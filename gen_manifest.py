#!/venv/bin/python
"""Regenerates MANIFEST.json from the table below (keeps it valid at all times)."""
import json, os
HERE = os.path.dirname(os.path.abspath(__file__))
PY = "/venv/bin/python /verif/run.py"

CHECKS = {
 "C01": dict(engine="ENUM+GRAPH", design="4 (tokenizer family)",
   technique="bounded-exhaustive enumeration of all (parameter tuple x stream<=L) executions of the real tokenizer; identity-carrying frames; RefTok closure + transition cover",
   text="Every accepted parameter tuple with max_length<=4 (quick; <=6 thorough) x every stream of <=10 (<=14) frames is executed on the real StreamTokenizer in generator and callback mode with frames that carry their own identity; each token must be the stream's own frame objects at start..end, ordered and disjoint. String/DataValidator and PCM/AudioEnergyValidator frames are rotated in. Exhaustive within the bound, which covers every control situation of the automaton for these tuples.",
   note="Trusted: the 60-line monitor in vlib/tokmodel.py. Bound: stream length and max_length; larger tuples only through the transition-cover stage."),
 "C02": dict(engine="ENUM+GRAPH", design="4 (tokenizer family)",
   technique="bounded-exhaustive enumeration of (tuple x stream) executions + full accept/reject table of the constructor over a signed integer grid",
   text="Same exploration as C01 with the length oracle (no token > max_length; a short token only directly after a token of max_length frames and never in strict mode), plus all 230 400 integer tuples of the signed grid for the constructor's ValueError decision.",
   note="Trusted: check_c02 and accepted() in vlib/tokmodel.py."),
 "C03": dict(engine="ENUM+GRAPH", design="4 (tokenizer family)",
   technique="bounded-exhaustive enumeration of (tuple x stream) executions with a silence-run monitor that carries runs across cuts",
   text="Same exploration with the silence oracle: per token at least one valid frame, starts valid unless it continues a cut token, ends valid when dropping and not cut, longest invalid run (counting the run carried over from a cut predecessor) within max_continuous_silence / max(..., init_max_silence).",
   note="Trusted: check_c03 in vlib/tokmodel.py; validity is re-derived from the delivered frames themselves."),
 "C04": dict(engine="ENUM+GRAPH", design="4 (tokenizer family)",
   technique="bounded-exhaustive comparison with a declarative whole-stream segmentation; explicit-state closure of the incremental reference automaton and W-method transition cover replayed on the implementation",
   text="For init_min<=1 the delivered (start,end) list must equal the greedy segmentation computed by a declarative whole-stream rule, for every tuple x stream in the bound; the incremental model RefTok is checked against the declarative rule, explored to closure, and every transition + all suffixes of length<=3 (4) is replayed on the real tokenizer for max_length up to 7 (10).",
   note="Trusted: segment() and RefTok in vlib/tokmodel.py (cross-checked against each other on every run). Completeness beyond the bound assumes the implementation has at most d-1 more control states than RefTok."),
 "C08": dict(engine="ENUM", design="4 (tokenizer family)",
   technique="bounded-exhaustive enumeration with an instrumented source: reads counted at every hand-over, all prefixes of every stream compared, three delivery modes",
   text="Every (tuple x stream) case is run in generator mode on a counting source; at each hand-over the number of frames read must be exactly the deciding frame (cut: the token's last frame; silence: the (max_silence+1)-th silent frame) or EOF; EOF is requested once; list/generator/callback agree; for every cut point k the prefix's tokens equal the tokens decided within k frames plus at most one shorter flush token.",
   note="Trusted: check_c08_timing/check_prefix in vlib/tokmodel.py. split() laziness is covered by chk_split (C05) where claimed."),
 "C12": dict(engine="SCHED", design="3.3, 4 (C12-C14)",
   technique="stateless model checking of the real worker threads under a controlled scheduler: all interleavings at queue/start/join granularity (state-cached DFS, persistent-set reduction for local steps), all timeout firings up to K, line-granularity schedules with bounded preemptions",
   text="The real TokenizerWorker and observer threads (recording observers, PrintWorker) run under a baton scheduler that owns Queue.put/get/get_nowait and Thread.start/join/is_alive of Worker instances. For every stream of <=4 (5) windows x 5 (8) observer sets, every interleaving and every pattern of <=2 (3) queue-wait timeouts is executed; each must end with all threads finished by themselves, no crash, and every observer having processed exactly split()'s detections once, in order, ids 1..n equal to the worker's detections list. A line-level pass (every line of workers.py a scheduling point, <=1 (2) preemptions) checks the assumption that threads interact only through queues.",
   note="Trusted: vlib/sched.py (scheduler, replay-determinism self-test on every exploration, failures re-executed before being reported). Not modelled: bytecode-level preemption inside a line; more than K timeouts; real time."),
 "C13": dict(engine="SCHED", design="3.3, 4 (C12-C14)",
   technique="stateless model checking of reader thread vs writer thread (StreamSaverWorker) and the file-writing observers under all interleavings, cache sizes and timeout firings; preemption-bounded line-level pass",
   text="Tokenizer reading through the real StreamSaverWorker (its writer is a controlled thread) with joiner and region-saver observers: every stream of <=4 (5) windows x cache sizes {0, 1 block, 1.5 blocks, never} x every interleaving x <=1 (2) timeouts; after termination the saved wav must hold exactly the blocks the wrapped reader produced (= the blocks the tokenizer saw) with the source's parameters, the joiner's file must equal split_and_join_with_silence(), and there must be exactly one correctly named region file per detection holding its audio.",
   note="Trusted: vlib/sched.py and the oracle in vlib/chk_workers.py; files are compared byte for byte via the wave module. Line-level pass bounded at 2 preemptions on the 2-block stream."),
 "C14": dict(engine="SCHED", design="3.3, 4 (C12-C14)",
   technique="stateless model checking with the stop as one more interleaved step: stop_all() racing the running threads at every position; the real cmdline.main with a KeyboardInterrupt alternative at every sleep",
   text="main = start_all(); stop_all(): because stop_all is main's next step, every placement of the stop relative to every read/put/get of the other threads is explored (state-cached, <=1 (2) timeouts). Second harness: the real cmdline.main(argv) with sleep as a scheduling point and Ctrl-C arriving in any sleep. Oracle: all threads end, no crash, and the observers' detections / printed lines / saved files equal split() of exactly the k blocks that were read, taken as a complete stream.",
   note="Trusted: vlib/sched.py. Ctrl-C is modelled only inside the main loop's sleep (not during start-up or during the shutdown path itself)."),
 "C05": dict(engine="ENUM", design="4 (C05)",
   technique="bounded-exhaustive enumeration of position-coded recordings (formats x window sizes x activity patterns incl. a partial last window) x duration tuples, split() compared region by region with a composed reference model",
   text="For 9 formats x 6 (rate, window) combinations incl. window arguments that are not a whole number of samples, every activity pattern of <=5 (7) windows plus every partial last window, and all 56 (min,max,silence,mode) tuples with max<=3 windows, split() (function and AudioRegion method) must yield exactly the model's regions: the input's own bytes of the sample range, the input's rate/width/channels, start = whole windows, end-start = duration = samples/rate, increasing and disjoint.",
   note="Trusted: tm.segment (cross-checked by C04) and the position-coded generator; energy levels are far from the threshold so C07's boundary cases are not re-decided here."),
 "C06": dict(engine="ENUM", design="4 (C06)",
   technique="bounded-exhaustive enumeration of decimal (min_dur, max_dur, max_silence, window, rate) grids with exact rational expected window counts, observed through probe signals proven discriminating; full accept/reject table",
   text="For 11 analysis windows x 4 rates x bytes/AudioReader input, durations k*w and k*w +- 0.4 ms for k up to 25 (60): the expected counts ceil/floor/floor of the exact rational quotients (1e-9 rule) decide whether split() must raise ValueError; for accepted tuples split() is run on four probe signals whose segmentation differs for every neighbouring count, and compared with the model. The probes are proven discriminating for all tuples up to 12 windows before they are used.",
   note="Trusted: counts() (exact Fractions from the decimal literals) and tm.segment. Quotients between 1e-10 and 1e-8 of an integer are outside the alphabet."),
 "C07": dict(engine="ENUM", design="4 (C07)",
   technique="bounded-exhaustive enumeration of windows over a sample alphabet x thresholds x channel selections against an exact rational / 60-digit decimal oracle, including windows that sit exactly on a threshold",
   text="All windows of 1..3 (4) samples x 1..3 channels x widths 1/2/4 over an 11-15 value alphabet (extremes, +-powers of ten, zero), every channel selection incl. invalid ones, 6 (13) fixed thresholds plus the window's exact energy and +-1e-6 around it: is_valid must equal the exact decision (>= on the boundary), selection errors must be ValueError exactly when the statement says so, and verdicts must be monotone in the threshold.",
   note="Trusted: hand decoding + Fraction/Decimal arithmetic in vlib/chk_energy.py. Values outside the alphabet and longer windows are not explored."),
 "C09": dict(engine="ENUM", design="4 (C09)",
   technique="bounded-exhaustive enumeration of recordings x 16 container kinds x alias spellings (short, long+wrong short) x duration tuples x max_read instants against the raw-bytes/long-name baseline",
   text="6 (10) recordings in different formats x 7 duration tuples x channel selections: every container (bytes, AudioRegion method/function, wav str/Path eager/lazy, raw eager/lazy, raw via fmt/audio_format on a misleading extension, Buffer/Raw/Wave sources, AudioReader, stdin) and every alias spelling must give the same (start sample, bytes) list; max_read/mr = t must equal splitting the first round(t*rate) samples.",
   note="PyAudioSource and pydub cannot be built here; stdin is a BytesIO."),
 "C10": dict(engine="ENUM", design="4 (C10)",
   technique="bounded-exhaustive enumeration of source length x format x block x hop x max_read x source kind, three reads past the end, against the by-definition block model",
   text="Source lengths 0..3*block+2, blocks of 1..4 (6) samples incl. truncating durations, every hop 1..block, max_read on/between/beyond sample instants and 0, six source kinds: every read() must return exactly the model's block and then None three more times; too-short blocks and hop > block must be rejected.",
   note="Rate 8 Hz so all durations are exact binary fractions."),
 "C11": dict(engine="GRAPH", design="3.2, 4 (C11)",
   technique="explicit-state search over the real operations of every audio source kind to closure with validated merges, plus all unpruned operation sequences to a depth, against an (open flag, cursor) reference model",
   text="Buffer, raw-file, wav-file and stdin sources over contents of 0..6 samples in 3 formats: read(n) for 7 sizes, open, close, is_open, and for the buffer source position/position_s/position_ms get and set over the whole in/out-of-range grid and rewind. The search reaches closure (all reachable (open, cursor) states), every transition is executed, every merge is validated with all suffixes of length d, and all sequences up to depth 2-4 (3-6) are run unpruned.",
   note="Trusted: the 60-line model in vlib/chk_sources.py. Seconds/milliseconds positions on exact sample instants only."),
 "C15": dict(engine="ENUM+SCHED", design="4 (C15)",
   technique="bounded-exhaustive enumeration of CLI option combinations x recordings x input kinds, each a deterministic controlled execution of the real cmdline.main compared with split(); exhaustive formatter enumeration with exact arithmetic",
   text="The full product of -n/-m/-s/-a/-e/-d/-R (128 points) x 3 recordings x 6 input kinds (wav, wav -L, raw, raw -f, raw -L, stdin), one-at-a-time variants for -u/-M/--printf/--time-format/-q, the -o/-O/-j files, -j without -O, the documented defaults, and every millisecond of 0..130 s (+-0.4 ms, plus the hour carries) through %S/%I/%h%m%s%i. Thorough adds 16 real subprocess runs.",
   note="Runs in-process under the SCHED scheduler's default schedule (no real sleeping). -E/-C/-p/-I/-F/-T are not explored."),
 "C16": dict(engine="ENUM", design="4 (C16)",
   technique="bounded-exhaustive enumeration of regions x slice bounds against Python list slicing of the sample sequence; exact rational oracle for the seconds/milliseconds views",
   text="Regions of 0..5 (7) samples in 5 formats x every pair of bounds from {None, -len-2..len+2, +-10^9}; seconds view on dyadic rates with bounds j/(4*rate) (strict) and on 10/44100 Hz with decimal bounds (ties and 1e-9 neighbourhoods accept either neighbour); millis view equals the seconds view at t/1000; TypeError for steps and wrongly typed bounds.",
   note="Trusted: list slicing of the decoded sample list."),
 "C17": dict(engine="GRAPH", design="4 (C17)",
   technique="explicit-state search over region values under +, *, /, join and slicing to a depth against sample lists, operands snapshotted around every operation; exhaustive pair tables for ==, parameters and silence",
   text="From a pool of regions of 0..3 samples in formats that differ pairwise in exactly one parameter, every operation is applied to every value reached up to depth 3 (4); results must be the byte-level concatenation/repetition/interleaving, / must give min(n,len) contiguous pieces differing by <=1 sample that sum to the original, mismatched parameters must raise the audio-parameter error, no operand may change; == iff bytes and parameters equal for all pairs; regions are frozen; non-whole data is rejected; make_silence(d) = round(d*rate) zero samples.",
   note="Trusted: Python bytes arithmetic."),
 "C18": dict(engine="ENUM", design="4 (C18)",
   technique="bounded-exhaustive enumeration of contents x formats x writers x readers (eager/lazy) and of load(skip,max_read) on/between/beyond sample instants against list slicing; numpy export against hand decoding",
   text="Contents of 0..6 samples x widths 1/2/4 x channels 1..3 x rates x {to_file, save with placeholders, save with Path} x {wav, raw, extension-less, explicit format} x {eager, lazy} must read back identically (wav header included), exists_ok=False must refuse; load(x, skip, max_read) over 5 source kinds must equal full[round(s*r): +round(m*r)]; numpy() must have shape (channels, samples) with hand-decoded values for every alphabet value.",
   note="Trusted: the wave module for reading headers back."),
 "C19": dict(engine="GRAPH", design="3.2, 4 (C19)",
   technique="explicit-state search over {read, rewind, data} histories of real recording readers to closure with validated merges, plus all unpruned histories up to a depth, against a phase/cursor/recorded-prefix model",
   text="Recorder and AudioReader(record=True) over sources of 0..5 (7) samples x blocks 1..3 x hops 1..block x 6 max_read values: every history of read/rewind/data up to length 5 (7) and the closure of the state graph must agree with the model (data raises before the first rewind, equals exactly the consumed prefix afterwards, replay yields the identical blocks); non-recording readers expose neither data nor rewind.",
   note="Rate 8 Hz (exact instants)."),
 "C20": dict(engine="GRAPH", design="4 (C20)",
   technique="explicit-state search over tokenizer uses: every first use on every stream, deduplicated by the tokenizer's leftover state, each distinct leftover state paired with every second stream and compared with a fresh tokenizer; exhaustive repeat tables for split/validator/buffer source",
   text="For every tuple with max_length<=3 (4) (+ a seed-selected stripe of max_length 4): first use in {list, callback, generator dropped after j items, generator exhausted} on every stream of <=8 (10) frames; every distinct leftover state is followed by every stream of <=6 (8) frames and must give a fresh tokenizer's tokens made of the second stream's own frames. Plus: 3x repeated split of the same bytes/region/rewound recorder, validators over all ordered triples of windows, buffer source close/reopen.",
   note="Leftover states are told apart by a generic snapshot of the tokenizer's attributes; two uses with the same snapshot are assumed to behave alike."),
}

EXTRA = {
 "C01": " Frame kinds rotate over (index,flag) tuples, characters, PCM windows and falsy / zero-length objects ([], '', 0, ()). Plus directed large rows (not exhaustive): streams of 300 (1000) frames, lengths around powers of two, silence runs around 128/256, a phase sweep of cut positions 0..135, max_length up to 1030. Reused tokenizers (every kind of earlier use on every short stream) and two tokenizers alive at once with different tuples, stepped alternately, are judged by the same oracle; constructor calls rotate over positional, defaulted and keyword spellings.",
 "C02": " Plus the same directed large rows as C01 (long streams, max_length up to 1030). The constructor table is repeated with the optional arguments omitted and with keyword arguments; reused and sibling tokenizers as in C01.",
 "C03": " Plus the same directed large rows as C01. Reused and sibling tokenizers as in C01.",
 "C04": " Every other case is repeated with falsy / zero-length frame objects; list mode is compared with generator mode on the directed large rows (lengths that are multiples of 256, streams ending inside an event). Reused and sibling tokenizers as in C01. The call-order validator is also run over a stream whose frames are all the very same object.",
 "C05": " Inputs rotate over split(bytes), AudioRegion.split and a region that itself carries a start time; every interleaving of two live split() generators (same configuration) must leave each unaffected; directed large rows: 400-window recordings, 70-window events starting at every window index 0..130 at 48 kHz/20 ms, 100 Hz/10 ms and 44.1 kHz/10 ms. Inputs also rotate over standard input (all at once, trickling behind a BufferedReader, and through a real pipe with a file descriptor); 32-bit recordings are full scale. Further inputs: a region carrying a start split by its own method; max_read ending inside a window.",
 "C06": " Plus window counts of 127..1024 (directed rows) and an overlapping AudioReader (hop = block/2) whose w is still its block duration. The non-reader input rotates over split(bytes), AudioRegion.split and trickling standard input; a fifth probe ends the stream one sample into the burst's last window.",
 "C07": " One in four windows is judged after a longer loud and a longer silent window by the same validator (history must not matter); directed large rows: windows of 8192..65536+ samples whose parts differ in level, and bytearray / memoryview / array / numpy windows with odd sample counts. The validator that split() / AudioRegion.split build from energy_threshold|eth (0, 0.0, negative, default by omission) and use_channel|uc is checked on one-window streams against the same exact oracle. Thresholds NaN, +inf, -inf and -250 (never / never / always / always active), through the validator and through split().",
 "C08": " The deciding point is derived from the stream itself (a token decided earlier may not be handed over at end of stream) and checked at generator hand-over and at callback entry; split() with 4410..16384-sample windows must request end of stream exactly once for every tail length. split() laziness is measured on five more inputs: an AudioReader, overlapping readers (aligned and unaligned tails, recording or not) and standard input with the bytes counted at the read calls; a region decided by a window may not be preceded by any further request, including one answered by end of stream. A raw file read with large_file=True that grows after the first region was yielded; a recording reader as input.",
 "C09": " stdin is also served through a real io.BufferedReader over a raw stream with short reads (1, 3, window-1 bytes); recordings at 8/16 kHz make max_read sub-millisecond; windows of 19200 and 32769 samples and a 160 KB recording exercise lazy readers; AudioSource objects handed over with an advanced cursor; max_read and mr together (mr smaller and larger) on eager and lazy files. Containers also include upper / mixed case extensions (REC001.WAV, take.2.Wave, DUMP.RAW) and a real-pipe stdin; all files live under a directory whose name contains a dot. wav files with chunks before and after the audio (and a pad byte); windows that are no whole number of microseconds.",
 "C10": " Rates 8 Hz and 16 kHz; source kinds include stdin with short reads and a buffer source whose cursor was advanced; directed large rows: blocks of 1024..40000 (70001) samples around block-multiple lengths at 8192 Hz. Recording readers are part of the source kinds; block_dur*rate just outside the 1e-9 band on either side of an integer (6 rates), incl. products just below 1 that must be rejected; readers built one after the other on a path rewritten in place with a new or a preserved modification time. A redundant open() after the first block and after the end; wav files with extra chunks; recording readers with max_read over a named pipe that trickles pieces which are not whole samples.",
 "C11": " stdin is explored under every way of cutting its byte stream into short reads (contents <= 6 bytes) and trickle patterns; position_ms / position_s tables at 8, 16, 44.1 and 48 kHz on exact sample instants; directed large rows: 40011-sample contents with reads of 1..65536 samples (all sequences of 3 reads). In-memory loaders (from_file eager wav/raw) and sources living next to sibling sources with other parameters go through the same GRAPH; a named pipe given as a raw file; a real-pipe stdin; loaders on 2^16+1 and 2^20+3 samples; files rewritten in place (new / preserved mtime; lazy source made before the rewrite). wav files with extra chunks (GRAPH kinds and the large loaders); the lazy raw source on a trickling named pipe.",
 "C12": " is_alive, Event, Lock, bounded queues and qsize()/empty()/full() are modelled as scheduling points; stereo input with channel selection given by long name and alias; a race-directed pass (happens-before detector over worker attributes, then a line-level search in the racing functions); directed starvation schedules on 300 and 150 detections with 2-3 observers (not exhaustive). Environment faults the other threads must survive under every interleaving: a reader that fails on close at end of stream, a joiner dying of a full disk at its k-th write, detection files of an earlier run already present (also through the command line); a PlayerWorker with a sound-card-like player. The producer started before its consumers; a caller that waits for the tokenizer only (interpreter exit modelled, daemon threads are killed); strict / drop split variants; digital silence with thresholds at and below the floor; a dead observer followed by 300 detections.",
 "C13": " Also: overlapping windows under the stream saver, a stop with saver + joiner, silences of 1.6 and 3.7 samples, a race-directed line-level pass, and directed starvation runs on 300 blocks at 10 Hz and on a 16 kHz recording (> 64 KiB of joined audio). Extension-less output names under a dotted directory; encoder keyword arguments handed to the region saver; stale files of an earlier run. Readers whose blocks differ in length mid-stream; late start of the savers; an output format whose encoder cannot be run (fallback wav must survive the worker).",
 "C14": " Also: stops with region-saving, joining and printing observers, 8-bit mono/3-channel audio, raw export (-O x.raw), a directed starvation run stopping a saver 300 blocks behind, and the race-directed pass. The number of source reads started when the stop request reached the tokenizer worker is recorded: more than one read begun afterwards is reading on after the stop; stops deep inside silences with plenty of stream left; a PlayerWorker observer whose player fails once stopped.",
 "C15": " Also: 2100 detections in one run (ids keep counting), --printf templates mixing typed escapes with non-ASCII text, and the natural end of the program under every interleaving with one timeout (no Ctrl-C). -j with durations that are not a whole number of samples; --printf templates starting with '@', '+'; a second run over the first run's -o files. -u 1 / -1 on mono input; -j 0 without -O; a 300-detection run with a dead region saver.",
 "C16": " Also: slices of slices (children produced by [], seconds, millis, / must behave like freshly built regions, incl. len/duration of their views), wrongly typed bounds that are falsy (0.0, '', [], ()), zero steps, type errors on an empty region and right after the correctly typed twin request; directed large rows: 70001-sample regions and a region above 16 MiB. Every length 0..2100 at ten rates (len, duration, negative bounds); views that outlive every other reference to their region, across garbage collections. Instants far outside the region (+-1e6 s, +-1e9 ms) at every length 0..2100.",
 "C17": " Also: == ignores a region's start time (small and 70001-sample regions); directed large rows: division into up to 70002 pieces, joins and sums of 1..1024 regions (counts around powers of two), 4097-fold repetition. region / k for every length 1..2100 at five rates; split_and_join_with_silence() against silence.join(split regions) for 0..3 detections. Data shorter than one sample and misaligned data with a start argument are rejected; a refused combination is refused again on retry and leaves the operands usable.",
 "C18": " Also: exists_ok=False with a placeholder template, to_file() from bytearray / memoryview / array / numpy buffers, tie instants (the statement's round(s*rate) is taken literally); directed large rows: skips around 1024/4096/8192 (65536) samples on multi-channel audio, numpy() on 3/5/6/7-channel regions beyond 65536 values. A path saved three times with a source object made before / between the saves and opened afterwards; encoder keyword arguments given to save(); all files under a dotted directory. Bare relative names in the current directory, upper / mixed case extensions, wav files with extra chunks through load(skip, max_read).",
 "C19": " Also: sources whose cursor was advanced before the reader was built, more than 1024 / 2048 reads before the rewind (read_many steps), blocks of 1024 / 4096 samples. One configuration in three also explores a redundant open() and close-before-the-first-rewind; recording readers over a trickling named pipe.",
 "C20": " Second uses rotate over a list run, a generator run and a generator requested before the first use; validators are re-asked after 130..2100 other distinct windows and across windows of different lengths; recorders (with and without overlap) whose first pass was abandoned after j regions; two live splits of the same region object in every interleaving. Repeated splits of recorders whose max_read lies beyond / inside the audio; calculate_energy() on the caller's own arrays three times; a StringDataSource given other strings with set_data(). An abandoned generator finalised from inside the next run (at its k-th read); an old split of a recorder closed while the new split runs.",
}

NOT_YET = {}
for i in range(1, 21):
    pid = "C%02d" % i
    if pid not in CHECKS:
        NOT_YET[pid] = "check not built yet in this revision of /verif (planned, see DESIGN.md section 4)"

def main():
    checks = []
    for pid in sorted(CHECKS):
        c = CHECKS[pid]
        checks.append({
            "property_id": pid,
            "quick_cmd": "%s %s --tier quick" % (PY, pid),
            "thorough_cmd": "%s %s --tier thorough" % (PY, pid),
            "evidence_file": "/verif/evidence/%s.json" % pid,
            "replay_cmd_template": "%s %s --replay {path}" % (PY, pid),
            "engine": c["engine"],
            "level_claimed": {"category": "model_checking", "text": c["text"] + EXTRA.get(pid, ""), "design_ref": "DESIGN.md section " + c["design"]},
            "level_note": c["note"],
            "technique": c["technique"],
        })
    m = {
        "version": 1,
        "setup_cmd": "mkdir -p /verif/evidence /verif/replays",
        "hooks": {
            "guard": "AUDITOK_VERIF",
            "enable": "none needed: every seam is interposed from outside at run time (module globals, class attributes, DataSource/AudioSource interfaces); no source commit carries a hook",
            "baseline_off_cmd": "cd /repo && /venv/bin/python -m pytest -ra -q -p no:cacheprovider --timeout=900 --continue-on-collection-errors",
            "source_commits": [],
            "add_only": True,
        },
        "engines": [
            {"name": "ENUM", "path": "/verif/vlib", "serves_properties": sorted(k for k in CHECKS if CHECKS[k]["engine"] != "SCHED"), "kind_free_text": "bounded-exhaustive enumeration of executions of the real code against reference models; explicit-state search with validated merging"},
            {"name": "SCHED", "path": "/verif/vlib/sched.py", "serves_properties": sorted(k for k in CHECKS if CHECKS[k]["engine"] == "SCHED"), "kind_free_text": "controlled scheduler for the real worker threads: exhaustive interleavings and timeout firings, state-cached; preemption-bounded line-level pass"},
        ],
        "checks": checks,
        "not_applicable": [{"property_id": k, "reason": v} for k, v in sorted(NOT_YET.items())],
        "notes": "All checks import auditok from /repo's working tree (VERIF_REPO overrides) and run with /venv/bin/python. Fixes of genuine defects are 'fix:' commits in /repo listed in /verif/known_findings.json.",
    }
    with open(os.path.join(HERE, "MANIFEST.json"), "w") as fp:
        json.dump(m, fp, indent=1)
        fp.write("\n")

if __name__ == "__main__":
    main()

#!/venv/bin/python
"""Entry point of every check:  run.py <property id> [--tier quick|thorough] [--replay path]

exit 0  property held on everything explored
exit 1  + "VIOLATION property=<id> replay=<path>"  a violation not listed in known_findings.json
exit 2  HARNESS-ERROR (the machinery could not decide; never a verdict about auditok)
"""

import argparse
import importlib
import os
import sys

sys.dont_write_bytecode = True
HERE = os.path.dirname(os.path.abspath(__file__))
sys.path.insert(0, HERE)
os.environ.setdefault("PYTHONHASHSEED", "0")

from vlib.common import MODULES  # noqa: E402

# the process' real standard input is never part of an experiment: whatever the caller left there, code under test
# that (wrongly) reads it gets an immediate end of file instead of blocking the check
try:
    _devnull = os.open(os.devnull, os.O_RDONLY)
    os.dup2(_devnull, 0)
    os.close(_devnull)
except OSError:
    pass


def main():
    ap = argparse.ArgumentParser()
    ap.add_argument("prop")
    ap.add_argument("--tier", default=None, choices=["quick", "thorough"])
    ap.add_argument("--replay", default=None)
    a = ap.parse_args()
    tier = a.tier or os.environ.get("VERIF_TIER") or "quick"
    if tier not in ("quick", "thorough"):
        tier = "quick"
    if a.prop not in MODULES:
        print("HARNESS-ERROR: unknown property %s" % a.prop)
        return 2
    mod = importlib.import_module("vlib." + MODULES[a.prop])
    if a.replay:
        from vlib import common

        payload = common.load_replay(a.replay)
        case = common.unhex(payload["case"])
        if isinstance(case, dict) and case.get("kind") == "crash_main":
            # the whole check crashed inside auditok outside any work item: the replay is the check itself
            import subprocess

            r = subprocess.run([sys.executable, os.path.abspath(__file__), a.prop, "--tier", case.get("tier", "quick")],
                               env=dict(os.environ, VERIF_NO_EVIDENCE="1"), capture_output=True, text=True)
            if r.returncode == 0:
                print("replay passes: %s" % a.replay)
                return 0
            print("VIOLATION property=%s replay=%s" % (a.prop, a.replay))
            print("  what: %s" % (r.stdout.strip().splitlines() or ["check failed"])[-1])
            return 1
        rp = common.replay_crash if (isinstance(case, dict) and case.get("kind") == "crash") else mod.replay
        m1 = rp(case)
        m2 = rp(case)
        if (m1 is None) != (m2 is None):
            print("HARNESS-ERROR: replay is not deterministic: %r / %r" % (m1, m2))
            return 2
        if m1:
            print("VIOLATION property=%s replay=%s" % (a.prop, a.replay))
            print("  what: %s" % m1)
            return 1
        print("replay passes: %s" % a.replay)
        return 0
    return mod.run(a.prop, tier)


if __name__ == "__main__":
    try:
        rc = main()
    except SystemExit:
        raise
    except BaseException as exc:  # a bug in the machinery is never a verdict about auditok
        import traceback

        traceback.print_exc()
        from vlib import common

        if isinstance(exc, Exception) and common.crashed_in_library(exc.__traceback__) and len(sys.argv) > 1 and "--replay" not in sys.argv:
            # ... but an exception escaping from auditok on input the unchanged tree accepts is (rule R5)
            tier = "thorough" if "thorough" in sys.argv else "quick"
            what = "auditok raised %s: %s where the harness gave it valid input" % (type(exc).__name__, " ".join(str(exc).split())[:200])
            path = common.write_replay(sys.argv[1], "crash_main %s" % type(exc).__name__, what, {"kind": "crash_main", "tier": tier})
            print("VIOLATION property=%s replay=%s" % (sys.argv[1], path))
            print("  what: %s" % what)
            sys.exit(1)
        print("HARNESS-ERROR: the check itself failed (see traceback)")
        rc = 2
    sys.exit(rc)

#!/opt/veriftools/pyvenv/bin/python
"""Validate MANIFEST.json and every evidence file against the schemas, and (optionally) run every quick
command for a list of seeds, reporting any that is not silent.   selftest.py [--run 0,1,2]"""
import json, os, subprocess, sys, glob, time
import jsonschema

V = "/verif"
m = json.load(open(V + "/MANIFEST.json"))
jsonschema.validate(m, json.load(open("/root/.vp/MANIFEST.schema.json")))
props = [json.loads(l)["id"] for l in open(V + "/properties.jsonl")]
claimed = [c["property_id"] for c in m["checks"]]
na = [x["property_id"] for x in m.get("not_applicable", [])]
assert sorted(claimed + na) == sorted(props), (claimed, na)
print("manifest ok: %d checks, %d not_applicable" % (len(claimed), len(na)))
seeds = []
if "--run" in sys.argv:
    seeds = [int(x) for x in sys.argv[sys.argv.index("--run") + 1].split(",")]
bad = 0
for seed in seeds:
    for c in m["checks"]:
        t0 = time.time()
        r = subprocess.run(c["quick_cmd"], shell=True, cwd=V, capture_output=True, text=True, env=dict(os.environ, VERIF_SEED=str(seed)))
        flag = "ok" if r.returncode == 0 and "VIOLATION" not in r.stdout and "HARNESS-ERROR" not in r.stdout else "NOT SILENT"
        bad += flag != "ok"
        print("seed %d %s %s rc=%d %.1fs" % (seed, c["property_id"], flag, r.returncode, time.time() - t0), flush=True)
        if flag != "ok":
            print(r.stdout[-600:], r.stderr[-600:])
es = json.load(open("/root/.vp/EVIDENCE.schema.json"))
for c in m["checks"]:
    f = c["evidence_file"]
    e = json.load(open(f))
    jsonschema.validate(e, es)
    cov = e["coverage"]
    assert e["property_id"] == c["property_id"] and e["level"] == c["level_claimed"]["category"]
    assert cov["states"] >= 1 and cov["transitions"] >= 1 and cov["samples"], f
print("evidence ok: %d files" % len(m["checks"]))
sys.exit(1 if bad else 0)

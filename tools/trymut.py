#!/venv/bin/python
"""Apply a catalogued mutant to a scratch copy of the tree and run checks / the baseline suite on it.

  trymut.py <name> [--tests] [--checks C01,C02] [--tier quick]
Scratch copies live under /dev/shm and are removed before exit.
"""
import argparse, importlib.util, os, shutil, subprocess, sys, tempfile

HERE = os.path.dirname(os.path.abspath(__file__))
spec = importlib.util.spec_from_file_location("mutants", os.path.join(HERE, "mutants.py"))
M = importlib.util.module_from_spec(spec); spec.loader.exec_module(M)

def make_copy(name):
    d = tempfile.mkdtemp(prefix="mut-%s-" % name, dir="/dev/shm")
    for item in ("auditok", "tests", "pyproject.toml", "setup.py", "README.rst"):
        src = os.path.join("/repo", item)
        if os.path.isdir(src):
            shutil.copytree(src, os.path.join(d, item), ignore=shutil.ignore_patterns("__pycache__"))
        elif os.path.exists(src):
            shutil.copy(src, d)
    return d

def apply(d, edits):
    for rel, old, new in edits:
        p = os.path.join(d, rel)
        s = open(p).read()
        if s.count(old) != 1:
            raise SystemExit("mutant does not apply: %r occurs %d times in %s" % (old[:60], s.count(old), rel))
        open(p, "w").write(s.replace(old, new))

def run_tests(d):
    r = subprocess.run(["/venv/bin/python", "-m", "pytest", "-q", "-p", "no:cacheprovider", "--timeout=20",
                        "--continue-on-collection-errors"], cwd=d, capture_output=True, text=True)
    tail = [l for l in r.stdout.splitlines() if " passed" in l or " failed" in l or "error" in l.lower()]
    return tail[-1] if tail else (r.stdout[-200:] + r.stderr[-200:])

def run_check(d, prop, tier):
    env = dict(os.environ, VERIF_REPO=d)
    r = subprocess.run(["/venv/bin/python", "/verif/run.py", prop, "--tier", tier], env=env, capture_output=True, text=True)
    lines = [l for l in r.stdout.splitlines() if l.startswith(("VIOLATION", "  what", "HARNESS", "KNOWN"))]
    return r.returncode, lines[:4], (r.stdout.strip().splitlines() or [""])[-1], r.stderr[-300:]

def main():
    ap = argparse.ArgumentParser()
    ap.add_argument("names", nargs="+")
    ap.add_argument("--tests", action="store_true")
    ap.add_argument("--checks", default=None)
    ap.add_argument("--tier", default="quick")
    a = ap.parse_args()
    names = list(M.MUTANTS) if a.names == ["all"] else a.names
    for name in names:
        mut = M.MUTANTS[name]
        d = make_copy(name)
        try:
            apply(d, mut["edits"])
            if a.tests:
                print("%-28s tests: %s" % (name, run_tests(d)), flush=True)
            checks = a.checks.split(",") if a.checks else mut.get("checks", [])
            for c in checks:
                rc, lines, last, err = run_check(d, c, a.tier)
                print("%-28s %s rc=%d %s" % (name, c, rc, (lines[1].strip() if len(lines) > 1 else (lines[0] if lines else last))[:150]), flush=True)
                if rc == 2: print(err)
        finally:
            shutil.rmtree(d, ignore_errors=True)

if __name__ == "__main__":
    main()

"""Catalogue of hand-written property-breaking changes (string edits on a scratch copy of /repo).
Each keeps the 579 baseline tests green (verified with trymut.py --tests) unless marked killed_by_tests.
'equivalent' marks negative controls: every check must stay silent on them."""
W = "auditok/workers.py"; C = "auditok/core.py"; U = "auditok/util.py"; I = "auditok/io.py"; S = "auditok/signal.py"
MUTANTS = {
 "worker_exit_on_timeout": dict(checks=["C12"], edits=[(W,
   "            if message is not None:\n                self._process_message(message)\n        self._post_process()",
   "            if message is None:\n                break\n            self._process_message(message)\n        self._post_process()")]),
}

MUTANTS.update({
 "saver_no_drain": dict(checks=["C13", "C14"], edits=[(W,
   "                data = self._inbox.get_nowait()\n                if data != _STOP_PROCESSING:\n                    self._cache.append(data)\n                    self._total_cached += len(data)\n",
   "                data = self._inbox.get_nowait()\n")]),
 "saver_cache_race": dict(checks=["C13"], edits=[(W,
   "        if data is not None:\n            self.send(data)\n        else:\n            self.send(_STOP_PROCESSING)\n        return data",
   "        if data is not None:\n            if not self._cache:\n                self._cache.append(data)\n                self._total_cached += len(data)\n            else:\n                self.send(data)\n        else:\n            self.send(_STOP_PROCESSING)\n        return data")]),
 "stop_all_order": dict(checks=["C14"], edits=[(W,
   "        self.stop()\n        for observer in self._observers:\n            observer.stop()\n        self._reader.close()",
   "        for observer in self._observers:\n            observer.stop()\n        self.stop()\n        self._reader.close()")]),
 "tw_read_ignores_stop": dict(checks=["C14"], edits=[(W,
   "        if self._stop_requested():\n            return None\n        else:\n            return self._reader.read()",
   "        stop = self._stop_requested()\n        data = self._reader.read()\n        if stop:\n            return None\n        return data")]),
 "tok_delayed_yield": dict(checks=["C08", "C14"], edits=[(C,
   "        self._reinitialize()\n        while True:\n            frame = data_source.read()\n            self._current_frame += 1\n            if frame is None:\n                token = self._post_process()\n                if token is not None:\n                    yield token\n                break\n            token = self._process(frame)\n            if token is not None:\n                yield token\n",
   "        self._reinitialize()\n        held = None\n        while True:\n            frame = data_source.read()\n            self._current_frame += 1\n            if held is not None:\n                yield held\n                held = None\n            if frame is None:\n                token = self._post_process()\n                if token is not None:\n                    yield token\n                break\n            held = self._process(frame)\n")]),
 "notify_skip_when_busy": dict(checks=["C12"], edits=[(W,
   "        for observer in self._observers:\n            observer.send(message)\n",
   "        for observer in self._observers:\n            if message != _STOP_PROCESSING and observer._inbox.qsize() >= 2:\n                continue\n            observer.send(message)\n")]),
 "joiner_first_event_race": dict(checks=["C13"], edits=[(W,
   "        if not self._first_event:\n            self._wfp.writeframes(self._silence_data)\n        else:\n            self._first_event = False\n        self._wfp.writeframes(data)",
   "        self._wfp.writeframes(data)\n        self._wfp.writeframes(self._silence_data)")]),
})

MUTANTS["saver_cache_race_hard"] = dict(checks=["C13"], note="only visible at line granularity: needs >=4 blocks and 2 preemptions", edits=[(W,
   "        if data is not None:\n            self.send(data)\n        else:\n            self.send(_STOP_PROCESSING)\n        return data",
   "        if data is not None:\n            if not self._cache and self._total_cached == 0 and self._inbox.empty():\n                self._cache.append(data)\n                self._total_cached += len(data)\n            else:\n                self.send(data)\n        else:\n            self.send(_STOP_PROCESSING)\n        return data")])
MUTANTS["saver_no_drain"]["equivalent"] = True  # data never follows the stop marker in the saver's inbox

MUTANTS.update({
 "close_no_rewind": dict(checks=["C11", "C20"], edits=[(I,
   "    def close(self):\n        self._is_open = False\n        self.rewind()\n",
   "    def close(self):\n        self._is_open = False\n")]),
 "wav_lazy_size": dict(checks=["C11", "C10"], edits=[(I,
   "            size = -1\n        return self._audio_stream.readframes(size)",
   "            size = -1\n        if size == 3:\n            size = 4\n        return self._audio_stream.readframes(size)")]),
 "buffer_read_empty_bytes": dict(checks=["C11"], edits=[(I,
   "        if data:\n            self._current_position_bytes += len(data)\n            return data\n        return None",
   "        if data or size == 0:\n            self._current_position_bytes += len(data)\n            return data\n        return None")]),
 "pos_neg_off_by_one": dict(checks=["C11"], edits=[(I,
   "        if position < 0 or position > len(self.data):\n            raise IndexError",
   "        if position < 0 or position >= len(self.data) + self._sample_size_all_channels:\n            raise IndexError")]),
 "stdin_partial_none": dict(checks=["C11"], edits=[(I,
   "        data = self._stream.read(bytes_to_read)\n        if data:\n            return data\n        return None",
   "        data = self._stream.read(bytes_to_read)\n        if data and len(data) == bytes_to_read:\n            return data\n        return None")]),
})

MUTANTS.update({
 "val_gt": dict(checks=["C07"], edits=[(U, "        return log_energy >= self._energy_threshold", "        return log_energy > self._energy_threshold")]),
 "sig_uint8": dict(checks=["C07", "C18"], edits=[(S, "SAMPLE_WIDTH_TO_DTYPE = {1: np.int8,", "SAMPLE_WIDTH_TO_DTYPE = {1: np.uint8,")]),
 "mix_int_mean": dict(checks=["C07"], edits=[(U, "        return lambda x: to_array_(x).mean(axis=0)", "        return lambda x: np.floor(to_array_(x).mean(axis=0))")]),
 "energy_floor_1e9": dict(checks=["C07"], edits=[(S, "EPSILON = 1e-10", "EPSILON = 1e-9")]),
 "neg_channel_index": dict(checks=["C07"], edits=[(U, "        if selected < 0:\n            selected += channels\n", "        if selected < 0:\n            selected += channels - 1\n            selected = max(selected, 0) if selected >= -1 else selected\n")]),
})

CM = "auditok/cmdline.py"
MUTANTS.update({
 "tok_start_after_silent_cut": dict(checks=["C01"], edits=[(C,
   "                self._start_frame = self._current_frame + 1\n",
   "                self._start_frame = self._current_frame + (0 if self._silence_length > 1 else 1)\n")]),
 "ctor_initmin_gt": dict(checks=["C02"], edits=[(C, "        if init_min >= max_length:", "        if init_min > max_length:")]),
 "tok_stale_sil_on_noise_cut": dict(checks=["C03"], edits=[(C,
   "                self._silence_length = 1\n                self._data.append(frame)\n                self._state = self.POSSIBLE_SILENCE\n                if len(self._data) == self.max_length:\n                    return self._process_end_of_detection(True)\n",
   "                self._data.append(frame)\n                self._state = self.POSSIBLE_SILENCE\n                if len(self._data) == self.max_length:\n                    return self._process_end_of_detection(True)\n                self._silence_length = 1\n")]),
 "tok_postprocess_len": dict(checks=["C04"], edits=[(C,
   "            if len(self._data) > 0 and len(self._data) > self._silence_length:",
   "            if len(self._data) > 1 and len(self._data) > self._silence_length:")]),
 "split_start_aw": dict(checks=["C05"], edits=[(C,
   "            token[1],\n            source.block_dur,\n", "            token[1],\n            analysis_window,\n")]),
 "revert_D1": dict(checks=["C02", "C04"], edits=[(C, "                    self._silence_length = 0\n                    self._contiguous_token = False\n", "                    self._silence_length = 0\n")]),
 "revert_D2": dict(checks=["C02"], edits=[(C, "                elif len(self._data) >= self.max_length:\n                    # max_length is reached before init_min, back to silence\n                    self._data = []\n                    self._state = self.SILENCE\n", "")]),
 "revert_D3": dict(checks=["C10", "C19"], edits=[(U, "            yield None\n            return\n", "            yield None\n")]),
 "revert_D4": dict(checks=["C18"], edits=[(C, "    if data is None:\n        # nothing (left) to read: an empty region, not an error\n        data = b\"\"\n", "")]),
 "revert_D5": dict(checks=["C06"], edits=[(C, "        min_dur, analysis_window, math.ceil, -_EPSILON\n", "        min_dur, analysis_window, math.ceil\n")]),
 "split_two_eof": dict(checks=["C08"], edits=[(C,
   "            if frame is None:\n                token = self._post_process()\n",
   "            if frame is None:\n                data_source.read()\n                token = self._post_process()\n")]),
 "alias_swap_mr": dict(checks=["C09"], edits=[(C,
   'params["max_read"] = params.get("max_read", params.get("mr"))', 'params["max_read"] = params.get("mr", params.get("max_read"))')]),
 "limiter_half_up": dict(checks=["C09", "C10"], edits=[(U,
   "        self._max_samples = round(max_read * self.sr)", "        self._max_samples = int(max_read * self.sr + 0.5)")]),
 "cli_default_aw": dict(checks=["C15"], edits=[(CM,
   '            dest="analysis_window",\n            default=0.01,', '            dest="analysis_window",\n            default=0.05,')]),
 "fmt_round": dict(checks=["C15"], edits=[(U,
   "            millis = int(seconds * 1000)\n            hrs, millis", "            millis = round(seconds * 1000)\n            hrs, millis")]),
 "seconds_round_start": dict(checks=["C16"], edits=[(C, "        start_sample = int(start_s * sr)", "        start_sample = round(start_s * sr)")]),
 "eq_ignore_sr": dict(checks=["C17"], edits=[(C, "            (self.data == other.data)\n            and (self.sr == other.sr)\n", "            (self.data == other.data)\n")]),
 "load_skip_int": dict(checks=["C18"], edits=[(C,
   "        skip_samples = round(skip * audio_source.sampling_rate)", "        skip_samples = int(skip * audio_source.sampling_rate)")]),
 "recorder_pos": dict(checks=["C19"], edits=[(U,
   "        if record:\n            input = _Recorder(input)\n        if max_read is not None:\n            input = _Limiter(input, max_read)\n            self._max_read = max_read\n",
   "        if max_read is not None:\n            input = _Limiter(input, max_read)\n            self._max_read = max_read\n        if record:\n            input = _Recorder(input)\n")]),
 "tok_reinit_flag": dict(checks=["C20"], edits=[(C,
   "    def _reinitialize(self):\n        self._contiguous_token = False\n", "    def _reinitialize(self):\n")]),
 # negative controls (behaviourally equivalent)
 "eq_limiter_size_lt0": dict(equivalent=True, checks=["C10", "C19", "C09"], edits=[(U, "        if size <= 0:\n            return None\n        block = self._audio_source.read(size)", "        if size < 0 or size == 0:\n            return None\n        block = self._audio_source.read(size)")]),
 "eq_to_array_reshape": dict(equivalent=True, checks=["C07", "C18"], edits=[(S, '    return array.reshape(channels, -1, order="F")', "    return array.reshape(-1, channels).T")]),
 "eq_close_before_stop": dict(equivalent=False, checks=["C12", "C13", "C14"], edits=[(W,
   "        self._notify_observers(_STOP_PROCESSING)\n        self._reader.close()", "        self._reader.close()\n        self._notify_observers(_STOP_PROCESSING)")]),
})

#!/venv/bin/python
"""Regenerates /verif/seeded/INDEX.md from the meta.json files."""
import glob, json, os

rows = []
for d in sorted(glob.glob("/verif/seeded/C*"), key=lambda p: (p.split("/")[-1].split("-")[0], int(p.split("-")[-1]))):
    m = json.load(open(d + "/meta.json"))
    sid = os.path.basename(d)
    caught = [k for k, v in m.get("checks_quick", {}).items() if v == "VIOLATION"]
    rnd = (int(sid.split("-")[1]) - 1) // 3 + 1
    rows.append((sid, rnd, m.get("summary", "").replace("\n", " ")[:150], m.get("needs", "").replace("\n", " ")[:150], ", ".join(caught)))
with open("/verif/seeded/INDEX.md", "w") as f:
    f.write("# Seeded property-breaking changes\n\nEach directory holds `patch.diff` (against /repo HEAD), `demo.py <tree>` (exits 0 on the unchanged tree, "
            "non-zero with the change) and `meta.json`.\nAll of them keep the 579 baseline tests green; all were produced by sub-agents that saw only the "
            "property text (later rounds also a list of earlier ideas to avoid).\n`caught by` = quick-tier checks that report a VIOLATION on a scratch copy "
            "with the change applied (tools/seedcheck.py).\n\n| id | round | change | needs | caught by |\n|---|---|---|---|---|\n")
    for r in rows:
        f.write("| %s | %d | %s | %s | %s |\n" % (r[0], r[1], r[2].replace("|", "/"), r[3].replace("|", "/"), r[4]))
print(len(rows), "seeds;", sum(1 for r in rows if not r[4]), "not caught by any listed check")

#!/venv/bin/python
"""Confirm a sub-agent's seeded change and run the checks against it.

  seedcheck.py /tmp/out-C11/change1 [--checks C11,C10] [--tier quick] [--keep]

Steps (all on a scratch copy under /dev/shm, removed afterwards): patch applies to /repo HEAD and touches
only auditok/; baseline suite still reports 579 passed; demo fails with the change and passes without;
then each named check is run with VERIF_REPO pointing at the changed copy.
With --keep the change is filed as /verif/seeded/<prop>-<k>/ (patch.diff, demo.py, meta.json).
"""
import argparse, json, os, shutil, subprocess, sys, tempfile

def sh(cmd, **kw):
    return subprocess.run(cmd, capture_output=True, text=True, **kw)

def copy_tree():
    d = tempfile.mkdtemp(prefix="seed-", dir="/dev/shm")
    sh(["git", "-C", "/repo", "archive", "--format=tar", "HEAD", "-o", d + ".tar"])
    sh(["tar", "-xf", d + ".tar", "-C", d]); os.unlink(d + ".tar")
    return d

def main():
    ap = argparse.ArgumentParser()
    ap.add_argument("dir"); ap.add_argument("--checks", default=None); ap.add_argument("--tier", default="quick")
    ap.add_argument("--keep", action="store_true"); ap.add_argument("--name", default=None); ap.add_argument("--skip-tests", action="store_true")
    a = ap.parse_args()
    src = os.path.abspath(a.dir.rstrip("/"))
    meta = json.load(open(os.path.join(src, "meta.json")))
    prop = meta["property"]
    name = a.name or "%s-%s" % (prop, os.path.basename(src).replace("change", ""))
    clean, mod = copy_tree(), copy_tree()
    out = {"name": name, "property": prop}
    try:
        patch = os.path.join(src, "patch.diff")
        files = [l.split(" b/")[-1].strip() for l in open(patch, errors="replace") if l.startswith("diff --git")]
        out["files"] = files
        if not files or any(not f.startswith("auditok/") for f in files):
            out["error"] = "patch touches %r" % files; print(json.dumps(out)); return 1
        r = sh(["git", "apply", "--whitespace=nowarn", patch], cwd=mod)
        if r.returncode:
            out["error"] = "patch does not apply: " + r.stderr[-200:]; print(json.dumps(out)); return 1
        if not a.skip_tests:
            r = sh(["/venv/bin/python", "-m", "pytest", "-q", "-p", "no:cacheprovider", "--timeout=60", "--continue-on-collection-errors"], cwd=mod)
            tail = [l for l in r.stdout.splitlines() if " passed" in l or " failed" in l]
            out["tests"] = tail[-1] if tail else r.stdout[-200:]
        demo = os.path.join(src, "demo.py")
        r1 = sh(["/venv/bin/python", demo, mod], timeout=600)
        r0 = sh(["/venv/bin/python", demo, clean], timeout=600)
        out["demo_with_change"] = r1.returncode; out["demo_clean"] = r0.returncode
        out["demo_says"] = (r1.stdout.strip().splitlines() or [""])[-1][:200]
        results = {}
        checks = a.checks.split(",") if a.checks else [prop]
        for c in checks:
            env = dict(os.environ, VERIF_REPO=mod, VERIF_TIER=a.tier)
            r = sh(["/venv/bin/python", "/verif/run.py", c, "--tier", a.tier], env=env)
            what = [l.strip() for l in r.stdout.splitlines() if l.startswith("  what")]
            results[c] = {"rc": r.returncode, "what": what[0][:300] if what else (r.stdout.strip().splitlines() or [""])[-1][:200]}
            if r.returncode == 2: results[c]["stderr"] = r.stderr[-400:]
        out["checks"] = results
        ok = out.get("tests", "579 passed").find("579 passed") >= 0 and out["demo_with_change"] != 0 and out["demo_clean"] == 0
        out["confirmed"] = ok
        if a.keep and ok:
            dst = os.path.join("/verif/seeded", name)
            os.makedirs(dst, exist_ok=True)
            if os.path.abspath(dst) != os.path.abspath(src):
                shutil.copy(patch, os.path.join(dst, "patch.diff")); shutil.copy(demo, os.path.join(dst, "demo.py"))
            meta.update({"id": name, "what_i_ran": "git apply on an export of /repo HEAD; baseline suite: %s; demo.py with change: exit %d, without: exit %d" % (out.get("tests"), out["demo_with_change"], out["demo_clean"]),
                         "checks_%s" % a.tier: {c: ("VIOLATION" if v["rc"] == 1 else "silent" if v["rc"] == 0 else "harness-error") for c, v in results.items()},
                         "first_report": {c: v["what"] for c, v in results.items() if v["rc"] == 1}})
            json.dump(meta, open(os.path.join(dst, "meta.json"), "w"), indent=1)
        print(json.dumps(out, indent=1))
    finally:
        shutil.rmtree(clean, ignore_errors=True); shutil.rmtree(mod, ignore_errors=True)

if __name__ == "__main__":
    sys.exit(main())

#!/venv/bin/python
"""Re-run the quick checks against every filed seeded change (regression pass after the checks were changed).

  reseed.py [-P 5] [ids...]

For each /verif/seeded/<id>/ the patch is applied to an export of /repo HEAD (under /dev/shm, removed afterwards)
and the property's own check plus every check recorded as reporting it is run with VERIF_REPO pointing at the
copy.  The baseline suite and the demo are NOT repeated (they do not depend on /verif).  meta.json's
"checks_quick" / "first_report" are refreshed; a seed that no check reports any more is listed at the end and
makes the exit status 1.
"""
import argparse, json, os, shutil, subprocess, sys, tempfile
from concurrent.futures import ThreadPoolExecutor

SEEDED = "/verif/seeded"


def sh(cmd, **kw):
    return subprocess.run(cmd, capture_output=True, text=True, **kw)


ALSO = []


def one(name):
    d = os.path.join(SEEDED, name)
    meta = json.load(open(os.path.join(d, "meta.json")))
    prop = meta["property"]
    prev = meta.get("checks_quick", {})
    checks = [prop] + sorted(set(c for c, v in prev.items() if v == "VIOLATION" and c != prop) | set(c for c in ALSO if c != prop))
    t = tempfile.mkdtemp(prefix="seed-", dir="/dev/shm")
    try:
        sh(["git", "-C", "/repo", "archive", "--format=tar", "HEAD", "-o", t + ".tar"])
        sh(["tar", "-xf", t + ".tar", "-C", t]); os.unlink(t + ".tar")
        r = sh(["git", "apply", "--whitespace=nowarn", os.path.join(d, "patch.diff")], cwd=t)
        if r.returncode:
            return name, {"error": "patch does not apply: " + r.stderr[-200:]}, prev
        res, first = {}, {}
        for c in checks:
            r = sh(["/venv/bin/python", "/verif/run.py", c, "--tier", "quick"], env=dict(os.environ, VERIF_REPO=t))
            res[c] = "VIOLATION" if r.returncode == 1 else "silent" if r.returncode == 0 else "harness-error"
            what = [l.strip() for l in r.stdout.splitlines() if l.startswith("  what")]
            if r.returncode == 1 and what:
                first[c] = what[0][:300]
        new = dict(prev); new.update(res)
        meta["checks_quick"] = new
        fr = dict(meta.get("first_report", {})); fr.update(first)
        meta["first_report"] = {c: v for c, v in fr.items() if new.get(c) == "VIOLATION"}
        json.dump(meta, open(os.path.join(d, "meta.json"), "w"), indent=1)
        return name, res, prev
    finally:
        shutil.rmtree(t, ignore_errors=True)


def main():
    ap = argparse.ArgumentParser()
    ap.add_argument("-P", type=int, default=4)
    ap.add_argument("--also", default="", help="comma separated checks to run in addition (for the given ids)")
    ap.add_argument("ids", nargs="*")
    a = ap.parse_args()
    ALSO.extend(c for c in a.also.split(",") if c)
    names = a.ids or sorted(os.listdir(SEEDED))
    names = [n for n in names if os.path.isdir(os.path.join(SEEDED, n))]
    lost, changed = [], []
    with ThreadPoolExecutor(a.P) as ex:
        for name, res, prev in ex.map(one, names):
            if "error" in res:
                print(name, res["error"]); lost.append(name); continue
            if not any(v == "VIOLATION" for v in res.values()):
                lost.append(name)
            for c, v in res.items():
                if prev.get(c) != v:
                    changed.append((name, c, prev.get(c), v))
            print(name, res, flush=True)
    print("changed:", changed)
    print("NOT REPORTED ANY MORE:", lost)
    return 1 if lost else 0


if __name__ == "__main__":
    sys.exit(main())

"""C10 (AudioReader framing; ENUM) and C19 (recorder; GRAPH)."""

import io
import itertools
import math
import os
import sys
import wave
from fractions import Fraction

from . import common, graph
from .chk_sources import FakeStdin, content as _content_small, content_big


def content(n, sw, ch):
    return content_big(n, sw, ch) if n > 1000 else _content_small(n, sw, ch)

SR = 8
FORMATS = [(1, 1), (2, 2), (4, 3)]

_L = {}


def lib():
    if not _L:
        common.import_auditok()
        from auditok import io as aio
        from auditok import util

        _L.update(io=aio, util=util)
    return _L


# ---------------------------------------------------------------------------
# reference model, by definition


def visible_count(n, max_read):
    if max_read is None:
        return n
    return max(0, min(n, round(max_read * SR)))


def blocks_of(samples, B, H):
    """Blocks of B samples every H samples (H == B: no overlap)."""
    out = []
    n = len(samples)
    k = 0
    while True:
        if k == 0:
            if n == 0:
                break
        elif n <= B + (k - 1) * H:
            break
        out.append(b"".join(samples[k * H : min(n, B + k * H)]))
        k += 1
    return out


def consumed_after(k, n, B, H):
    """Source samples consumed once k blocks have been read."""
    if k == 0:
        return 0
    return min(n, B + (k - 1) * H)


# ---------------------------------------------------------------------------
# C10


def make_input(kind, data, sw, ch, files):
    L = lib()
    kw = dict(sr=SR, sw=sw, ch=ch)
    if kind.startswith(("rec:", "Rec:")):
        kind = kind[4:]
    if kind == "bytes":
        return data, kw
    if kind == "buffer":
        return L["io"].BufferAudioSource(data, SR, sw, ch), {}
    if kind == "user_adapter":
        # a user-defined AudioSource subclass (first channel of a stereo source): `data` is what it hands out
        from .chk_sources import mono_view_class, interleave_with_noise

        if ch != 1:
            return L["io"].BufferAudioSource(data, SR, sw, ch), {}
        return mono_view_class()(L["io"].BufferAudioSource(interleave_with_noise(data, sw), SR, sw, 2)), {}
    if kind == "buffer_pos2":
        # a buffer source whose cursor was advanced before the reader was built: the reader's stream starts there
        src = L["io"].BufferAudioSource(data, SR, sw, ch)
        src.position = min(2, len(data) // (sw * ch))
        return src, {}
    if kind == "raw":
        return files["raw"], dict(kw, large_file=True, audio_format="raw")
    if kind == "wav":
        return files["wav"], dict(large_file=True)
    if kind == "wav_eager":
        return files["wav"], {}
    if kind in ("wavx", "wavx_eager"):
        return files["wavx"], dict(large_file=(kind == "wavx"))
    if kind.startswith("stdin"):
        return "-", kw
    raise ValueError(kind)


def write_files(data, sw, ch, tag):
    d = common.scratch_dir()
    raw = os.path.join(d, "r_%s.raw" % tag)
    wav = os.path.join(d, "r_%s.wav" % tag)
    with open(raw, "wb") as fp:
        fp.write(data)
    with wave.open(wav, "wb") as fp:
        fp.setframerate(SR)
        fp.setsampwidth(sw)
        fp.setnchannels(ch)
        fp.writeframes(data)
    from .chk_sources import write_wav_chunky

    wavx = os.path.join(d, "r_%s_x.wav" % tag)
    write_wav_chunky(wavx, data, SR, sw, ch)
    return {"raw": raw, "wav": wav, "wavx": wavx}


def build_reader(kind, data, sw, ch, files, block_dur, hop_dur, max_read, record=False, cls=None):
    L = lib()
    inp, kw = make_input(kind, data, sw, ch, files)
    old = sys.stdin
    if kind.startswith("stdin"):
        chunks = [int(x) for x in kind.split(":")[1].split(",")] if ":" in kind else None
        sys.stdin = FakeStdin(data, chunks)
    try:
        if kind.startswith("Rec:"):
            cls = "Recorder"  # the Recorder class spells the same thing
        if kind.startswith("rec:"):
            record = True  # the framing statement holds for a recording reader as well (no rewind in this history)
        if cls == "Recorder":
            if (round(block_dur * SR) + (0 if hop_dur is None else 1)) % 2:
                # the documented order of the first parameters, written positionally
                return L["util"].Recorder(inp, block_dur, hop_dur, max_read, **kw)
            return L["util"].Recorder(inp, block_dur=block_dur, hop_dur=hop_dur, max_read=max_read, **kw)
        if not record and not kind.startswith(("rec:", "Rec:")) and cls is None and round(block_dur * SR) % 2 == 0:
            return L["util"].AudioReader(inp, block_dur, hop_dur, False, max_read, **kw)  # AudioReader's documented order
        return L["util"].AudioReader(inp, block_dur=block_dur, hop_dur=hop_dur, max_read=max_read, record=record, **kw)
    finally:
        sys.stdin = old


def c10_case(kind, n, sw, ch, files, B, block_dur, H, hop_dur, max_read, extra_reads=3, premature=False, extra_open=False):
    """Returns complaint or None."""
    # R2: durations whose exact product with the rate is within 1e-9 of an integer without being one are ambiguous
    for dur in (block_dur, hop_dur):
        if dur is not None:
            q = Fraction(dur) * SR
            if q.denominator != 1 and abs(q - round(q)) < Fraction(1, 10 ** 9):
                return None
    data = content(n, sw, ch)
    bps = sw * ch
    samples = [data[i : i + bps] for i in range(0, len(data), bps)]
    if kind == "buffer_pos2":
        samples = samples[min(2, n):]
    vis = samples[: visible_count(len(samples), max_read)]
    exp = blocks_of(vis, B, H)
    try:
        r = build_reader(kind, data, sw, ch, files, block_dur, hop_dur, max_read)
    except Exception as exc:
        return "constructor raised %r" % (exc,)
    try:
        if r.block_size != B:
            return "block_size is %r, floor(block_dur*rate) is %d" % (r.block_size, B)
        if premature and not kind.startswith("stdin") and kind != "buffer_pos2":
            # reading a reader that is not open is an error - and must leave it usable once opened
            for _ in range(2):  # more than one attempt before the reader is opened
                try:
                    if r.read() is not None:
                        return None  # statement silent on a reader that hands out data before open(): not judged
                except Exception:
                    pass
        r.open()
        got = []
        for i_ in range(len(exp) + extra_reads):
            if extra_open and i_ in (1, len(exp) + 1):
                r.open()  # a redundant open() of a reader that is open (a helper that opens what it is handed) changes nothing
            try:
                b = r.read()
            except Exception as exc:
                return "read #%d raised %r (after %d blocks)" % (len(got) + 1, exc, len(got))
            got.append(b)
        want = exp + [None] * extra_reads
        if got != want:
            def sh(x):
                if x is None:
                    return None
                return x.hex() if len(x) <= 16 else "<%d bytes %s..%s>" % (len(x), x[:4].hex(), x[-4:].hex())
            return "blocks %r, expected %r" % ([sh(x) for x in got], [sh(x) for x in want])
    finally:
        try:
            r.close()
        except Exception:
            pass
    return None


def max_reads(n):
    vals = [None, 0]
    for k in range(1, n + 2):
        vals.append(k / SR)
        vals.append((k + 0.5) / SR)
        vals.append((k + 0.25) / SR)
    vals.append((n + 5) / SR)
    return vals


def work_c10(task):
    global SR
    sw, ch, B, kinds, tier, SR = task
    lib()
    cov = {"evaluations": 0, "distinct_nontrivial": 0, "traces_validated_against_impl": 0, "states": 0,
           "transitions": 0, "samples": []}
    viol = []
    block_durs = [(B / SR, "exact"), ((B + 0.5) / SR, "truncating")]
    for n in range(0, 3 * B + 3):
        data = content(n, sw, ch)
        files = write_files(data, sw, ch, "%d_%d_%d_%d" % (os.getpid(), n, sw, ch))
        for (bd, _), H in itertools.product(block_durs, [None] + list(range(1, B + 1))):
            hop_dur = None if H is None else H / SR
            if hop_dur is not None and hop_dur > bd:
                continue
            HH = B if H is None else H
            for mr in max_reads(n):
                for kind in kinds:
                    prem = (n + B + len(kind)) % 3 == 0
                    xo = (n + B + len(kind)) % 3 == 1
                    msg = c10_case(kind, n, sw, ch, files, B, bd, HH, hop_dur, mr, premature=prem, extra_open=xo)
                    cov["evaluations"] += 1
                    cov["traces_validated_against_impl"] += 1
                    nb = len(blocks_of([b"."] * visible_count(n, mr), B, HH))
                    cov["transitions"] += nb + 3
                    if nb:
                        cov["distinct_nontrivial"] += 1
                    if msg:
                        key = "reader rate=%d kind=%s n=%d sw=%d ch=%d block_dur=%r hop_dur=%r max_read=%r" % (
                            SR, kind, n, sw, ch, bd, hop_dur, mr)
                        if len(viol) < 20:
                            viol.append((key, msg, {"kind": "c10", "source": kind, "n": n, "sw": sw, "ch": ch, "B": B,
                                                    "block_dur": bd, "H": HH, "hop_dur": hop_dur, "max_read": mr, "rate": SR, "premature": prem, "extra_open": xo}))
        for f in files.values():
            os.unlink(f)
    cov["states"] = cov["evaluations"]
    cov["samples"].append({"sw": sw, "ch": ch, "block_samples": B, "source_lengths": "0..%d" % (3 * B + 2),
                           "example": {"n": 2 * B + 1, "hop": max(1, B - 1),
                                       "blocks": [b.hex() for b in blocks_of(
                                           [content(2 * B + 1, sw, ch)[i * sw * ch:(i + 1) * sw * ch] for i in range(2 * B + 1)],
                                           B, max(1, B - 1))]}})
    return {"cov": cov, "viol": viol}


def work_c10_large(task):
    """Large blocks (1024 / 4096 samples) around block-multiple source lengths."""
    global SR
    sw, ch, B, tier, SR = task
    lib()
    cov = {"evaluations": 0, "distinct_nontrivial": 0, "traces_validated_against_impl": 0, "large_rows_not_exhaustive": 0,
           "samples": []}
    viol = []
    for n in (B - 1, B, B + 1, 2 * B, 2 * B + 5, 3 * B + 1):
        data = content(n, sw, ch)
        files = write_files(data, sw, ch, "L%d_%d_%d_%d" % (os.getpid(), n, sw, ch))
        for H in (None, B // 2, B - 1):
            for mr in (None, (B + 1) / SR, (2 * B) / SR, (n + 9) / SR):
                for kind in ("bytes", "wav", "raw", "stdin:4093"):
                    msg = c10_case(kind, n, sw, ch, files, B, B / SR, B if H is None else H, None if H is None else H / SR, mr)
                    cov["evaluations"] += 1
                    cov["large_rows_not_exhaustive"] += 1
                    cov["traces_validated_against_impl"] += 1
                    cov["distinct_nontrivial"] += 1
                    if msg and len(viol) < 5:
                        key = "reader-large rate=%d kind=%s n=%d sw=%d ch=%d B=%d H=%r max_read=%r" % (SR, kind, n, sw, ch, B, H, mr)
                        viol.append((key, msg[:400], {"kind": "c10", "source": kind, "n": n, "sw": sw, "ch": ch, "B": B, "block_dur": B / SR,
                                                      "H": B if H is None else H, "hop_dur": None if H is None else H / SR,
                                                      "max_read": mr, "rate": SR}))
        for f in files.values():
            os.unlink(f)
    cov["samples"].append({"large_block": B, "sw": sw, "ch": ch, "rate": SR})
    return {"cov": cov, "viol": viol}


def c10_rejections(rep):
    L = lib()
    data = content(4, 2, 1)
    n = 0
    for bd, hd, why in [(0.5 / SR, None, "block shorter than one sample"), (0.99 / SR, None, "block shorter than one sample"),
                        (2 / SR, 3 / SR, "hop > block"), (1 / SR, 1.5 / SR, "hop > block"), (3 / SR, 3.5 / SR, "hop > block"),
                        (0.0, None, "zero block"), (-1 / SR, None, "negative block")]:
        n += 1
        try:
            L["util"].AudioReader(data, block_dur=bd, hop_dur=hd, sr=SR, sw=2, ch=1)
        except Exception:
            continue
        rep.violation("reader block_dur=%r hop_dur=%r accepted" % (bd, hd), "%s was not rejected" % why,
                      {"kind": "c10rej", "block_dur": bd, "hop_dur": hd})
    rep.add("evaluations", n)


def c10_near_integer(rep):
    """block_dur * rate just outside the 1e-9 ambiguity band on either side of an integer: block_size is the exact
    floor (the band itself is left unjudged, rule R2); a product below 1 by more than the band is rejected."""
    L = lib()
    for rate in (100, 8000, 16000, 22050, 44100, 48000, 49, 98, 103, 11000, 22000, 44000) + tuple(range(1, 200, 7)):
        for k in (1, 2, 7, 432, 1024):
            for delta in (-1e-3, -1e-6, -1e-7, -1e-8, 0.0, 1e-8, 1e-7, 1e-6, 1e-3):
                bd = (k + delta) / rate
                q = Fraction(bd) * rate
                if q.denominator != 1 and abs(q - round(q)) < Fraction(1, 10 ** 9):
                    # inside the band either neighbour is right - but it must be one of them: rejected or a working reader
                    rep.add("ambiguous_skipped")
                    rep.add("evaluations")
                    near = round(q)
                    try:
                        r = L["util"].AudioReader(bytes(2 * (2 * k + 3)), block_dur=bd, sr=rate, sw=2, ch=1)
                        r.open()
                        first = r.read()
                        got = (r.block_size, None if first is None else len(first) // 2)
                        r.close()
                        ok = got[0] in (near - 1, near) and got[0] >= 1 and got[1] == got[0]
                    except Exception as exc:
                        got, ok = "raised %s" % type(exc).__name__, near - 1 < 1
                    if not ok:
                        rep.violation("reader-near-integer rate=%d block_dur=%r" % (rate, bd),
                                      "block_dur=%r at %d Hz (exact product %.17g): reader gives (block_size, first block) = %r; neither %d nor %d samples%s" % (
                                          bd, rate, float(q), got, near - 1, near, " nor a rejection" if near - 1 < 1 else ""), {"kind": "c10near"})
                    continue
                want = math.floor(q)
                rep.add("evaluations")
                rep.add("near_integer_rows")
                data = bytes(2 * (2 * k + 3))
                try:
                    r = L["util"].AudioReader(data, block_dur=bd, sr=rate, sw=2, ch=1)
                    r.open()
                    first = r.read()
                    got = (r.block_size, len(first) // 2)
                    r.close()
                except Exception as exc:
                    got = "raised %s" % type(exc).__name__
                exp = (want, want) if want >= 1 else None
                ok = (got == exp) if exp else isinstance(got, str)
                if not ok:
                    rep.violation("reader-near-integer rate=%d block_dur=%r" % (rate, bd),
                                  "block_dur=%r at %d Hz (exact product %.12f): reader gives %r, floor is %d%s" % (
                                      bd, rate, float(q), got, want, "" if want else " - shorter than one sample, must be rejected"),
                                  {"kind": "c10near"})


def c10_rewritten(rep):
    """Readers built one after the other on a path whose file is rewritten in between (same size; new or preserved
    modification time): each reader's blocks are those of the file as it is when the reader is built."""
    L = lib()
    d = common.scratch_dir()
    for ext in ("wav", "raw"):
        for lazy in (False, True):
            for keep in (False, True):
                path = os.path.join(d, "rewr_%d.%s" % (os.getpid(), ext))
                stamp = None
                for i, data in enumerate((content(7, 2, 1), bytes(reversed(content(7, 2, 1))), content(9, 2, 1)[4:])):
                    if ext == "wav":
                        with wave.open(path, "wb") as fp:
                            fp.setframerate(SR)
                            fp.setsampwidth(2)
                            fp.setnchannels(1)
                            fp.writeframes(data)
                    else:
                        with open(path, "wb") as fp:
                            fp.write(data)
                    if keep:
                        if stamp is None:
                            st = os.stat(path)
                            stamp = (st.st_atime_ns, st.st_mtime_ns)
                        os.utime(path, ns=stamp)
                    rep.add("evaluations")
                    kw = dict(large_file=lazy) if ext == "wav" else dict(large_file=lazy, audio_format="raw", sr=SR, sw=2, ch=1)
                    try:
                        r = L["util"].AudioReader(path, block_dur=2 / SR, **kw)
                        r.open()
                        got = []
                        while len(got) < 9:
                            b = r.read()
                            if b is None:
                                break
                            got.append(b)
                        r.close()
                    except Exception as exc:
                        got = "raised %r" % (exc,)
                    want = blocks_of([data[j : j + 2] for j in range(0, len(data), 2)], 2, 2)
                    if got != want:
                        rep.violation("reader-rewritten %s lazy=%s keep_mtime=%s #%d" % (ext, lazy, keep, i + 1),
                                      "reader #%d on a %s file rewritten in place (%s modification time, %s loading): blocks %r, the file holds %r" % (
                                          i + 1, ext, "same" if keep else "new", "lazy" if lazy else "in-memory", got, want), {"kind": "c10rewritten"})
                        break
                os.unlink(path)


# ---------------------------------------------------------------------------
# C19


_C19_FILES = {}


class RecSys:
    def __init__(self, cfg):
        self.cfg = cfg
        n, sw, ch, B, H, mr, how, kind = cfg
        data = content(n, sw, ch)
        bps = sw * ch
        samples = [data[i : i + bps] for i in range(0, len(data), bps)]
        if kind == "buffer_pos2":
            samples = samples[min(2, n):]
        self.vis = samples[: visible_count(len(samples), mr)]
        self.B, self.H = B, H
        self.many = None
        hop_dur = None if H == B else H / SR
        files = None
        if kind in ("raw", "wav"):
            # a lazily read file (large_file=True) under the recorder
            tag = "c19_%d_%d_%d_%d" % (os.getpid(), n, sw, ch)
            if tag not in _C19_FILES:
                _C19_FILES[tag] = write_files(data, sw, ch, tag)
            files = _C19_FILES[tag]
        self.real = build_reader(kind, data, sw, ch, files, B / SR, hop_dur, mr,
                                 record=(how == "record"), cls="Recorder" if how == "Recorder" else None)
        self.real.open()
        self.phase = "live"
        self.k = 0
        self.ended = False
        self.consumed = 0
        self.rec = None
        self.closed = False
        # one configuration in three also explores a redundant open() and close-before-rewind (what the command line does)
        self.extra = (n + B + H) % 3 == 0

    def ops(self):
        if self.closed:
            return [("rewind",), ("data",)]
        if self.many:
            return [("read_many", self.many), ("read",), ("rewind",), ("data",)]
        if self.extra:
            return [("read",), ("rewind",), ("data",), ("open",)] + ([("close",)] if self.phase == "live" else [])
        return [("read",), ("rewind",), ("data",)]

    def ops_small(self):
        return [op for op in self.ops() if op[0] != "open"]

    def step(self, op):
        if op[0] == "read_many":
            # k reads as one step (long histories): outputs are compared as digests
            import hashlib

            hr, hm = hashlib.sha1(), hashlib.sha1()
            nr = nm = 0
            for _ in range(op[1]):
                r, m = self._real(("read",)), self._model(("read",))
                hr.update(repr(r).encode())
                hm.update(repr(m).encode())
                nr += r[0] == "data"
                nm += m[0] == "data"
            return ("many", nr, hr.hexdigest()), ("many", nm, hm.hexdigest())
        return self._real(op), self._model(op)

    def _real(self, op):
        try:
            if op[0] == "read":
                b = self.real.read()
                return ("none",) if b is None else ("data", bytes(b))
            if op[0] == "rewind":
                self.real.rewind()
                return ("ok",)
            if op[0] == "data":
                return ("data", bytes(self.real.data))
            if op[0] == "open":
                self.real.open()
                return ("ok",)
            if op[0] == "close":
                self.real.close()
                return ("ok",)
        except Exception as exc:
            if op[0] == "data":
                return ("raise", "error")
            return ("raise", type(exc).__name__ + ": " + str(exc)[:50])

    def _model(self, op):
        src = self.vis if self.phase == "live" else self.rec
        if op[0] == "read":
            ck = (id(src), len(src))
            if getattr(self, "_bk", None) != ck:
                self._bk, self._blocks = ck, blocks_of(src, self.B, self.H)
            blocks = self._blocks
            if self.k >= len(blocks):
                if self.phase == "live":
                    self.ended = True
                return ("none",)
            b = blocks[self.k]
            self.k += 1
            if self.phase == "live":
                self.consumed = consumed_after(self.k, len(src), self.B, self.H)
            return ("data", b)
        if op[0] == "open":
            return ("ok",)  # the reader is open already
        if op[0] == "close":
            self.closed = True
            return ("ok",)
        if op[0] == "rewind":
            if self.phase == "live":
                self.rec = self.vis[: self.consumed]
                self.phase = "replay"
            self.k = 0
            self.closed = False  # rewinding makes the recorded audio readable again
            return ("ok",)
        if op[0] == "data":
            if self.phase == "live":
                return ("raise", "error")
            return ("data", b"".join(self.rec))

    def key(self):
        return (self.phase, self.k, self.consumed, self.ended if self.phase == "live" else None, self.closed)

    def close(self):
        try:
            self.real.close()
        except Exception:
            pass


def fifo_recorders(rep):
    """A recording reader with max_read over a lazily read named pipe whose data trickles in pieces that are not whole
    samples: blocks, the visible prefix, data after rewind and the replay are what they are for a regular file."""
    from .chk_sources import fifo_trickle

    L = lib()
    sw, ch = 2, 1
    bps = sw * ch
    for n in (5, 10):
        data = content(n, sw, ch)
        samples = [data[i : i + bps] for i in range(0, len(data), bps)]
        for chunks in ((3,), (1,), (5, 2)):
            for B, H in ((2, 2), (3, 2), (4, 4)):
                for mr in (None, (n - 2) / SR, (n - 2.5) / SR, (n + 3) / SR):
                    rep.add("evaluations")
                    rep.add("distinct_nontrivial")
                    vis = samples[: visible_count(n, mr)]
                    want = blocks_of(vis, B, H)
                    path = fifo_trickle(data, chunks)
                    msg = None
                    try:
                        r = L["util"].AudioReader(path, block_dur=B / SR, hop_dur=None if H == B else H / SR, max_read=mr, record=True,
                                                  large_file=True, audio_format="raw", sr=SR, sw=sw, ch=ch)
                        r.open()
                        got = []
                        while len(got) < len(want) + 3:
                            b = r.read()
                            if b is None:
                                break
                            got.append(b)
                        r.rewind()
                        rec = bytes(r.data)
                        replay = []
                        while len(replay) < len(want) + 3:
                            b = r.read()
                            if b is None:
                                break
                            replay.append(b)
                        r.close()
                        if got != want:
                            msg = "blocks %r, expected %r" % ([x.hex() for x in got], [x.hex() for x in want])
                        elif rec != b"".join(vis):
                            msg = "data after rewind holds %d bytes, %d were visible and read" % (len(rec), len(b"".join(vis)))
                        elif replay != want:
                            msg = "replay gives %d blocks, the first pass gave %d" % (len(replay), len(want))
                    except Exception as exc:
                        msg = "raised %r" % (exc,)
                    finally:
                        try:
                            os.unlink(path)
                        except OSError:
                            pass
                    if msg:
                        rep.violation("fifo-recorder n=%d chunks=%r B=%d H=%d max_read=%r" % (n, chunks, B, H, mr),
                                      "recording reader (block %d, hop %d, max_read %r) over a named pipe delivering %r-byte pieces: %s" % (B, H, mr, chunks, msg),
                                      {"kind": "fiforec"})
                        return


def c10_packets(rep):
    """A user-defined source that hands out at most one packet per read (fewer samples than asked for, as the
    AudioSource contract allows): with max_read the blocks still add up to exactly the first round(max_read*rate)
    samples - no more, no fewer."""
    L = lib()
    AudioSource = L["io"].AudioSource

    class Packets(AudioSource):
        def __init__(self, data, packet, sw, ch):
            super().__init__(SR, sw, ch)
            self._d, self._p, self._k, self._open = data, 0, packet * sw * ch, False

        def open(self):
            self._open = True

        def close(self):
            self._open = False

        def is_open(self):
            return self._open

        def read(self, size):
            n = min(size * self.sw * self.ch, self._k, len(self._d) - self._p)
            if n <= 0:
                return None
            out = self._d[self._p : self._p + n]
            self._p += n
            return out

    for (sw, ch) in ((2, 1), (1, 2)):
        bps = sw * ch
        for n in (7, 12):
            data = content(n, sw, ch)
            for packet in (1, 2, 3):
                for B in (2, 4, 5):
                    for mr in (None, 5 / SR, 5.5 / SR, 6.5 / SR, (n + 2) / SR):
                        for record in (False, True):
                            rep.add("evaluations")
                            rep.add("distinct_nontrivial")
                            want = data[: visible_count(n, mr) * bps]
                            try:
                                r = L["util"].AudioReader(Packets(data, packet, sw, ch), block_dur=B / SR, max_read=mr, record=record)
                                r.open()
                                got = []
                                while len(got) < 3 * n:
                                    b = r.read()
                                    if b is None:
                                        break
                                    got.append(b)
                                tail = [r.read(), r.read()]
                                r.close()
                                got = b"".join(got)
                                msg = None if got == want else "the blocks add up to %d samples, expected the first %d" % (len(got) // bps, len(want) // bps)
                                if msg is None and tail != [None, None]:
                                    msg = "reads after the end give %r" % (tail,)
                            except Exception as exc:
                                msg = "raised %r" % (exc,)
                            if msg:
                                rep.violation("reader-packets sw=%d ch=%d n=%d packet=%d B=%d max_read=%r record=%s" % (sw, ch, n, packet, B, mr, record),
                                              "source of %d samples delivering at most %d per read, block %d, max_read %r%s: %s" % (
                                                  n, packet, B, mr, ", recording" if record else "", msg), {"kind": "c10packets"})
                                return


class _FakePyAudioStream:
    def __init__(self, owner, rate, channels, width, frames_per_buffer):
        self._o, self._bps, self._pos, self._active = owner, channels * width, 0, True

    def is_active(self):
        return self._active

    def is_stopped(self):
        return not self._active

    def read(self, n, exception_on_overflow=True):
        data = self._o.audio
        out = bytes(data[(self._pos + i) % len(data)] for i in range(n * self._bps))  # the microphone never ends
        self._pos += n * self._bps
        self._o.requests.append(n)
        return out

    def stop_stream(self):
        self._active = False

    def start_stream(self):
        self._active = True

    def close(self):
        self._active = False


class _FakePyAudio:
    """Stand-in for the pyaudio module: a microphone that delivers exactly the number of frames it is asked for."""

    paInt8, paInt16, paInt32 = 16, 8, 2
    audio = bytes(range(1, 98))
    requests = []

    def PyAudio(self):
        return self

    def get_format_from_width(self, width, unsigned=False):
        return {1: 16, 2: 8, 4: 2}[width]

    def open(self, format=None, channels=1, rate=16000, input=False, output=False, input_device_index=None, frames_per_buffer=1024, **kw):
        self._last = _FakePyAudioStream(self, rate, channels, {16: 1, 8: 2, 2: 4}[format], frames_per_buffer)
        return self._last

    def terminate(self):
        pass


def c10_microphone(rep):
    """input=None (the microphone, through a stand-in for the pyaudio module): blocks of exactly block_size samples,
    also when a block is larger than the device buffer; max_read ends the stream after round(max_read*rate) samples."""
    L = lib()
    fake = _FakePyAudio()
    old = sys.modules.get("pyaudio")
    sys.modules["pyaudio"] = fake
    try:
        for rate, B, fpb in ((16000, 160, 1024), (16000, 1600, 1024), (16000, 400, 256), (8000, 1025, 1024)):
            for sw, ch in ((2, 1), (1, 2)):
                for mr_blocks in (2, 2.5):
                    rep.add("evaluations")
                    rep.add("distinct_nontrivial")
                    bps = sw * ch
                    total = round(mr_blocks * B)
                    fake.requests = []
                    try:
                        r = L["util"].AudioReader(None, block_dur=B / rate, max_read=total / rate, sr=rate, sw=sw, ch=ch, frames_per_buffer=fpb)
                        r.open()
                        got = []
                        while len(got) < 6:
                            b = r.read()
                            if b is None:
                                break
                            got.append(b)
                        r.close()
                        stream = bytes(fake.audio[i % len(fake.audio)] for i in range(total * bps))
                        want = [stream[i : i + B * bps] for i in range(0, len(stream), B * bps)]
                        msg = None if got == want else "blocks of %r samples, expected %r" % ([len(x) // bps for x in got], [len(x) // bps for x in want])
                    except Exception as exc:
                        msg = "raised %r" % (exc,)
                    if msg:
                        rep.violation("reader-microphone rate=%d B=%d fpb=%d sw=%d ch=%d mr=%r" % (rate, B, fpb, sw, ch, mr_blocks),
                                      "microphone reader, block %d samples, device buffer %d: %s" % (B, fpb, msg), {"kind": "c10mic"})
                        return
    finally:
        if old is None:
            sys.modules.pop("pyaudio", None)
        else:
            sys.modules["pyaudio"] = old


def _c10_dispatch(t):
    return work_c10(t[1]) if t[0] == "w" else work_c10_large(t[1])


def work_c19(task):
    global SR
    SR = 8
    cfg, d, unpruned = task[:3]
    many = task[3] if len(task) > 3 else None
    lib()

    def mk():
        s_ = RecSys(cfg)
        s_.many = many
        return s_

    res = graph.explore(mk, d=d, unpruned_depth=unpruned, max_depth=(4 if many else None))
    viol = []
    for hist, msg in res.violations:
        key = "recorder n=%d sw=%d ch=%d B=%d H=%d max_read=%r how=%s src=%s history=%s" % (tuple(cfg) + (
            "".join(op[0][0] if op[0] != "rewind" else "W" for op in hist),))
        viol.append((key, msg, {"kind": "c19", "cfg": list(cfg), "history": hist, "many": many}))
    cov = {"evaluations": res.histories, "states": res.states, "transitions": res.transitions,
           "traces_validated_against_impl": res.histories, "distinct_nontrivial": res.histories,
           "merges_validated": res.merges_validated,
           "samples": [{"cfg(n,sw,ch,block,hop,max_read,how,source)": list(cfg), "states": res.states,
                        "deepest_new_state_history": res.sample}]}
    if many:
        cov["large_rows_not_exhaustive"] = res.histories  # directed rows: depth-bounded on purpose
    elif not res.closed:
        cov["exhaustive"] = False
        cov["caps_hit"] = ["closure not reached for %r" % (cfg,)]
    return {"cov": cov, "viol": viol}


def c19_nonrecording(rep):
    L = lib()
    data = content(4, 2, 1)
    n = 0
    for hop in (None, 1 / SR):
        for mr in (None, 2 / SR):
            r = L["util"].AudioReader(data, block_dur=2 / SR, hop_dur=hop, max_read=mr, sr=SR, sw=2, ch=1)
            r.open()
            r.read()
            for attr in ("data", "rewind"):
                n += 1
                try:
                    getattr(r, attr)
                except AttributeError:
                    continue
                except Exception as exc:
                    rep.violation("nonrecording %s hop=%r mr=%r" % (attr, hop, mr),
                                  "non-recording reader: %s raised %r instead of AttributeError" % (attr, exc),
                                  {"kind": "c19non", "attr": attr, "hop": hop, "max_read": mr})
                    continue
                rep.violation("nonrecording %s hop=%r mr=%r" % (attr, hop, mr),
                              "non-recording reader exposes %s" % attr,
                              {"kind": "c19non", "attr": attr, "hop": hop, "max_read": mr})
    rep.add("evaluations", n)


# ---------------------------------------------------------------------------


def run(prop, tier):
    lib()
    quick = tier == "quick"
    if prop == "C10":
        rep = common.Report(prop, tier, "bounded-exhaustive enumeration of (source length x format x block x hop x max_read x "
                            "source kind) with reads past the end, against the by-definition block model")
        kinds = ["bytes", "buffer", "raw", "wav", "stdin", "wav_eager", "stdin:1", "stdin:3", "stdin:5,2", "buffer_pos2",
                 "rec:bytes", "rec:wav", "wavx", "user_adapter", "Rec:bytes"]
        tasks = [(sw, ch, B, kinds, tier, 8) for (sw, ch) in FORMATS for B in (range(1, 6) if quick else range(1, 8))]
        # a high rate: max_read / block_dur / hop_dur are sub-millisecond values there
        tasks += [(sw, ch, B, ["bytes", "wav", "stdin", "stdin:3", "rec:bytes"], tier, 16000) for (sw, ch) in FORMATS[:2] for B in ((2, 3) if quick else (1, 2, 3, 5))]
        rep.cov["rule"] = ("one evaluation = one reader built from one configuration and read to exhaustion plus 3 more "
                           "reads; non-trivial when at least one block is expected; distinct by construction; "
                           "states = configurations, transitions = read() calls compared")
        rep.cov["bounds"] = {"block_samples": "1..5" if quick else "1..7", "rates": [8, 16000], "source_len": "0..3*block+2", "formats": FORMATS,
                             "kinds": kinds}
        c10_rejections(rep)
        c10_near_integer(rep)
        c10_rewritten(rep)
        fifo_recorders(rep)
        c10_packets(rep)
        c10_microphone(rep)
        ltasks = [("L", (sw, ch, B, tier, 8192)) for (sw, ch) in ((2, 2), (1, 1)) for B in ((1024, 4096, 16385, 40000) if quick else (1024, 4096, 8192, 16385, 40000, 70001))]
        for part in common.pmap(_c10_dispatch, [("w", t) for t in tasks] + ltasks):
            rep.merge(part)
        rep.assumptions += ["rate 8 Hz so that block/hop/max_read values are exact binary fractions; max_read uses "
                            "Python's round() as the statement does",
                            "a hop shorter than one sample is outside the alphabet (statement silent)"]
        return rep.finish()
    rep = common.Report(prop, tier, "explicit-state search over {read, rewind, data} histories of real recording readers "
                        "to closure with validated merges, plus all unpruned histories up to a depth")
    tasks = []
    for n in (range(0, 6) if quick else range(0, 8)):
        for B in (1, 2, 3):
            for H in range(1, B + 1):
                for mr in [None, 0, 1 / SR, 2.5 / SR, 3.5 / SR, 1.75 / SR, (n + 3) / SR, max(n - 1, 1) / SR]:
                    for how, kind, fmt in (("record", "bytes", (2, 1)), ("Recorder", "buffer", (1, 2))):
                        if quick and (n + B + H) % 2 and how == "Recorder":
                            continue
                        d, unpruned = (2, 5) if quick else (2, 7)
                        tasks.append(((n, fmt[0], fmt[1], B, H, mr, how, kind), d, unpruned))
    for n in (0, 1, 3, 5):
        for B, H in ((1, 1), (2, 1), (3, 2)):
            for mr in (None, 2.5 / SR):
                tasks.append(((n, 2, 1, B, H, mr, "Recorder", "buffer_pos2"), 2, 5 if quick else 6))
                tasks.append(((n, 2, 1, B, H, mr, "record", "user_adapter"), 2, 5 if quick else 6))
    # lazily read raw / wav files under the recorder
    for n in (3, 5):
        for B, H in ((1, 1), (2, 1)):
            for mr in (None, 2.5 / SR):
                tasks.append(((n, 2, 1, B, H, mr, "record", "raw"), 2, 5 if quick else 6))
                tasks.append(((n, 1, 2, B, H, mr, "Recorder", "wav"), 2, 5 if quick else 6))
    # more than 1024 / 2048 reads before the rewind
    for (n, B, H, mr, k) in ((1100, 1, 1, None, 1030), (2300, 1, 1, None, 2060), (2200, 2, 1, 2100 / SR, 1040), (3300, 3, 3, None, 1030)):
        tasks.append(((n, 1, 1, B, H, mr, "Recorder", "bytes"), 0, 3, k))
    for (n, B, H, mr) in ((3 * 1024 + 7, 1024, 1024, None), (3 * 1024 + 7, 1024, 512, None), (2 * 4096 + 1, 4096, 4095, (4096 + 100) / 8),
                          (5000, 1024, 1000, 4500 / 8)):
        tasks.append(((n, 2, 2, B, H, mr, "Recorder", "bytes"), 1, 4 if quick else 5))
    rep.cov["rule"] = ("one evaluation = one {read,rewind,data} history replayed on a fresh real recorder next to the model; "
                       "all distinct; all but the root non-trivial")
    rep.cov["bounds"] = {"configs": len(tasks), "source_len": "0..5" if quick else "0..7", "block": "1..3", "hop": "1..block"}
    c19_nonrecording(rep)
    fifo_recorders(rep)
    for part in common.pmap(work_c19, tasks, chunksize=4):
        rep.merge(part)
    rep.assumptions += ["rate 8 Hz (exact instants)"]
    return rep.finish()


def replay(case):
    lib()
    k = case["kind"]
    if k == "c10":
        global SR
        SR = case.get("rate", 8)
        data = content(case["n"], case["sw"], case["ch"])
        files = write_files(data, case["sw"], case["ch"], "replay")
        return c10_case(case["source"], case["n"], case["sw"], case["ch"], files, case["B"], case["block_dur"],
                        case["H"], case["hop_dur"], case["max_read"], premature=case.get("premature", False),
                        extra_open=case.get("extra_open", False))
    if k in ("c10near", "c10rewritten", "fiforec", "c10packets", "c10mic"):
        rep = common.Report("C10", "quick", "")
        {"c10near": c10_near_integer, "c10rewritten": c10_rewritten, "fiforec": fifo_recorders, "c10packets": c10_packets,
         "c10mic": c10_microphone}[k](rep)
        return rep.violations[0][1] if rep.violations else None
    if k == "c10rej":
        try:
            lib()["util"].AudioReader(content(4, 2, 1), block_dur=case["block_dur"], hop_dur=case["hop_dur"], sr=SR, sw=2, ch=1)
        except Exception:
            return None
        return "not rejected"
    if k == "c19":
        cfg = tuple(case["cfg"])

        def mk():
            s_ = RecSys(cfg)
            s_.many = case.get("many")
            return s_

        s, msg = graph.replay(mk, [tuple(op) for op in case["history"]])
        s.close()
        return msg
    if k == "c19non":
        rep = common.Report("C19", "quick", "")
        c19_nonrecording(rep)
        return rep.violations[0][1] if rep.violations else None

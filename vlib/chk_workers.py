"""C12, C13, C14: the worker protocol under every schedule (SCHED engine)."""

import io
import itertools
import os
import shutil
import sys
import wave

from . import common
from . import sched

SR, SW, CH = 10, 2, 1
BLOCK = 0.1  # one sample per analysis window


def pcm(pattern, sw=SW, ch=CH, spw=1):
    """`spw` samples per window; loud samples carry their index in the low bits.  Pattern characters:
    A loud on every channel, a quiet, L loud on the first channel only, R loud on the last channel only."""
    out = []
    idx = 0
    for c in pattern:
        for _ in range(spw):
            for k in range(ch):
                loud = c == "A" or (c == "L" and k == 0) or (c == "R" and k == ch - 1)
                if sw == 1:
                    v = (100 + (idx % 20)) if loud else (idx % 3)
                else:
                    v = (20000 + idx % 9000 - k) if loud else (idx % 5)
                if c == "z":
                    v = 0  # digital silence
                out.append(int(v).to_bytes(sw, "little", signed=True))
            idx += 1
    return b"".join(out)


_L = {}


def lib():
    if not _L:
        common.import_auditok()
        import auditok
        from auditok import workers as w
        from auditok import core, util

        sched.install()
        import warnings

        # numpy's "mean of empty slice" on the empty blocks some configurations feed on purpose
        warnings.filterwarnings("ignore", category=RuntimeWarning, module="numpy")

        class Crash(w.Worker):
            """An observer whose handler fails on its first message (its thread dies, as a real one would)."""

            def _process_message(self, message):
                raise RuntimeError("observer failed (injected fault)")

        _L["Crash"] = Crash

        class Ragged(util.AudioReader):
            """A reader whose blocks have different lengths mid-stream (what a socket / pipe / device reader gives):
            block k is the concatenation of sizes[k % len(sizes)] ordinary blocks."""

            def __init__(self, data, sizes, **kw):
                super().__init__(data, **kw)
                self._sizes = list(sizes)
                self._k = 0

            def read(self):
                n = self._sizes[self._k % len(self._sizes)]
                self._k += 1
                if n == 0:
                    return b""  # a live source with nothing to hand out right now: an empty block, not the end
                parts = []
                for _ in range(n):
                    b = super().read()
                    if b is None:
                        break
                    parts.append(b)
                return b"".join(parts) if parts else None

        _L["Ragged"] = Ragged

        class Rec(w.Worker):
            """Recording observer."""

            def __init__(self, timeout=0.2):
                self.log = []
                self.metas = []
                super().__init__(timeout=timeout)

            def _process_message(self, message):
                _id, region = message
                self.log.append((_id, region.data, region.start))
                # what the detection's metadata says when this observer gets to see it (every observer is handed the same object)
                self.metas.append((region.meta.start, region.meta.end))

        class Poll(Rec):
            """Recording observer that also looks at the tokenizer worker's own detections list while it handles
            a detection (a progress display, a monitor): the list is appended to before the detection is sent, so
            at that moment it holds ids 1..k at least."""

            tw = None
            peek = ()

            def __init__(self, timeout=0.2):
                self.polls = []
                super().__init__(timeout=timeout)

            def _process_message(self, message):
                super()._process_message(message)
                self.polls.append((message[0], [d.id for d in self.tw.detections]))
                for x in self.peek:
                    # a look at what a file-writing worker has saved so far (a progress display); what it shows while the
                    # file is being written is not judged, and failing to read a half-written file is not the library's fault
                    try:
                        x.data
                    except Exception:
                        pass

        _L.update(auditok=auditok, w=w, core=core, util=util, Rec=Rec, Poll=Poll)
    return _L


class FakePlayer:
    """What the sound-card player looks like to PlayerWorker: play() writes to an output stream, stop() closes it,
    writing to a closed stream fails."""

    def __init__(self):
        self.played = []
        self.closed = False

    def play(self, data, progress_bar=False, **kwargs):
        if self.closed:
            raise OSError("Stream closed")
        self.played.append(bytes(data))

    def stop(self):
        self.closed = True


class LogReader:
    """Transparent proxy that logs what read() handed out."""

    close_fault = False

    def __init__(self, reader):
        self._r = reader
        self.blocks = []
        self.nones = 0
        self.started = 0

    def close(self):
        self._r.close()
        if self.close_fault:
            raise OSError("injected fault: the device reports an error on close")

    read_fault = None

    def read(self):
        self.started += 1
        if self.read_fault is not None and self.started == self.read_fault:
            raise OSError("injected fault: the device fails at read %d" % self.read_fault)
        b = self._r.read()
        if b is None:
            self.nones += 1
        else:
            self.blocks.append(b)
        return b

    def __getattr__(self, name):
        return getattr(self._r, name)


SPLIT_KW = dict(min_dur=0.1, max_dur=0.3, max_silence=0.0)
SPLIT_VARIANTS = {
    "s0": dict(min_dur=0.1, max_dur=0.3, max_silence=0.0),
    "s1": dict(min_dur=0.2, max_dur=0.3, max_silence=0.1),
    "s1d": dict(min_dur=0.1, max_dur=0.4, max_silence=0.1, drop_trailing_silence=True),
    "s2": dict(min_dur=0.1, max_dur=0.1, max_silence=0.0),  # every loud window is a detection
    "s1s": dict(min_dur=0.2, max_dur=0.3, max_silence=0.0, strict_min_dur=True),  # remainders of a cut are dropped
    "s1sd": dict(min_dur=0.2, max_dur=0.4, max_silence=0.2, strict_min_dur=True, drop_trailing_silence=True),
}

_expect_cache = {}


def cfg_sr(cfg):
    return cfg.get("sr", SR)


def expected(data, skw_name, sw=SW, ch=CH, sr=SR, hop=None, extra=(), ragged=None):
    """Sequential reference: what split() returns for these bytes."""
    key = (data, skw_name, sw, ch, sr, hop, tuple(extra), tuple(ragged or ()))
    if key not in _expect_cache:
        L = lib()
        kw = dict(SPLIT_VARIANTS[skw_name])
        kw.update(dict(extra))
        if ragged:
            regs = list(L["core"].split(L["Ragged"](data, ragged, block_dur=BLOCK, sr=sr, sw=sw, ch=ch), **kw))
        elif hop:
            rd = L["util"].AudioReader(data, block_dur=BLOCK, hop_dur=hop, sr=sr, sw=sw, ch=ch)
            regs = list(L["core"].split(rd, **kw))
        else:
            regs = list(L["core"].split(data, sr=sr, sw=sw, ch=ch, analysis_window=BLOCK, **kw))
        if len(_expect_cache) > 2000:
            _expect_cache.clear()
        _expect_cache[key] = [(i, r.data, r.start, r.end, r.duration) for i, r in enumerate(regs, 1)]
    return _expect_cache[key]


def exp_for(cfg, data):
    return expected(data, cfg["split"], cfg.get("sw", SW), cfg.get("ch", CH), cfg_sr(cfg), cfg.get("hop"),
                    tuple(sorted(cfg.get("split_extra", {}).items())), cfg.get("ragged"))


class Ctx:
    pass


_seq = [0]


def make_factory(cfg):
    """cfg: dict(kind, pattern, observers, split, cache, silence, template ...)."""
    L = lib()
    w = L["w"]
    kind = cfg["kind"]
    sw = cfg.get("sw", SW)
    ch = cfg.get("ch", CH)
    sr = cfg_sr(cfg)
    data = pcm(cfg["pattern"], sw, ch, max(1, round(sr * BLOCK)))

    def make():
        ctx = Ctx()
        ctx.cfg = cfg
        ctx.data = data
        _seq[0] += 1
        ctx.dir = os.path.join(common.scratch_dir(), "x%d" % (_seq[0] % 8))
        shutil.rmtree(ctx.dir, ignore_errors=True)
        os.makedirs(ctx.dir)
        ctx.stdout = io.StringIO()
        if kind == "cli":
            return make_cli(ctx, cfg, data, sw, ch)
        if cfg.get("ragged"):
            inner = L["Ragged"](data, cfg["ragged"], block_dur=BLOCK, sr=sr, sw=sw, ch=ch)
        elif cfg.get("lazy_file"):
            # a lazily read wav file: a source without a stream position
            wavp = os.path.join(ctx.dir, "input.wav")
            with wave.open(wavp, "wb") as fp:
                fp.setframerate(sr)
                fp.setsampwidth(sw)
                fp.setnchannels(ch)
                fp.writeframes(data)
            inner = L["util"].AudioReader(wavp, block_dur=BLOCK, large_file=True)
        elif cfg.get("stdin_live"):
            # standard input fed by a live producer that never closes: whoever asks for more than was delivered waits for ever
            ctx.live_stdin = sched.LiveStdin(data)
            old_stdin = sys.stdin
            sys.stdin = ctx.live_stdin
            try:
                inner = L["util"].AudioReader("-", block_dur=BLOCK, sr=sr, sw=sw, ch=ch)
            finally:
                sys.stdin = old_stdin
        else:
            inner = L["util"].AudioReader(data, block_dur=BLOCK, hop_dur=cfg.get("hop"), sr=sr, sw=sw, ch=ch)
        ctx.inner = LogReader(inner)
        ctx.inner.close_fault = bool(cfg.get("close_fault"))
        ctx.inner.read_fault = cfg.get("read_fault")
        reader = ctx.inner
        ctx.saver = None
        ctx.outer = None
        if cfg.get("saver"):
            ctx.saver_file = os.path.join(ctx.dir, "stream" if cfg.get("noext") else cfg.get("saver_name", "stream.wav"))
            ctx.saver = w.StreamSaverWorker(ctx.inner, ctx.saver_file, cache_size_sec=cfg.get("cache", 0.5))
            ctx.outer = LogReader(ctx.saver)
            reader = ctx.outer
        obs = []
        ctx.recs, ctx.printers, ctx.joiners, ctx.regsavers = [], [], [], []
        for o in cfg["observers"]:
            if o == "rec":
                x = L["Rec"]()
                ctx.recs.append(x)
            elif o == "poll":
                x = L["Poll"]()
                ctx.recs.append(x)
                ctx.pollers = getattr(ctx, "pollers", []) + [x]
            elif o == "crash":
                x = L["Crash"]()
                ctx.crashers = getattr(ctx, "crashers", []) + [x]
            elif o == "cmd":
                # the -C observer: a shell command per detection (here: append the size of the detection's file to a log)
                import tempfile

                log = os.path.join(ctx.dir, "cmd%d.log" % len(getattr(ctx, "cmdlogs", [])))
                ctx.cmdlogs = getattr(ctx, "cmdlogs", []) + [log]
                ctx.old_tempdir = getattr(ctx, "old_tempdir", tempfile.tempdir)
                tempfile.tempdir = ctx.dir
                x = w.CommandLineWorker("wc -c < {file} >> %s" % log)
            elif o == "play":
                pl = FakePlayer()
                x = w.PlayerWorker(pl)
                ctx.players = getattr(ctx, "players", []) + [pl]
            elif o in ("print", "print_ts"):
                # print_ts: the template also names {timestamp}, with a format spec that keeps the line deterministic
                x = w.PrintWorker("{id} {start} {end} {duration}" + ("{timestamp:.0s}" if o == "print_ts" else ""), "%S")
                ctx.printers.append(x)
            elif o == "join":
                fn = os.path.join(ctx.dir, ("joined%d" if cfg.get("noext") else "joined%d.wav") % len(ctx.joiners))
                x = w.AudioEventsJoinerWorker(cfg.get("silence", 0.1), fn, None, sr, sw, ch)
                x._verif_file = fn
                if cfg.get("join_fault"):
                    _inject_write_fault(x, cfg["join_fault"])
                ctx.joiners.append(x)
            elif o == "regsave_bad":
                x = w.RegionSaverWorker(os.path.join(ctx.dir, "no_such_dir", "bad_{id}.wav"))  # every save fails
            elif o == "regsave":
                tpl = os.path.join(ctx.dir, cfg.get("template", "ev_{id}.wav"))
                for stale in cfg.get("preexisting", ()):
                    # files of an earlier run under the same names
                    with open(tpl.format(id=stale, start=0.0, end=0.1, duration=0.1), "wb") as fp:
                        fp.write(b"stale file of an earlier run")
                x = w.RegionSaverWorker(tpl, **cfg.get("regsave_extra", {}))
                ctx.regsavers.append(x)
            else:
                raise ValueError(o)
            obs.append(x)
        ctx.obs = obs
        if cfg.get("fd_headroom"):
            # few spare file descriptors, as in a long-running service: whoever leaks one per detection runs out
            import resource

            ctx.old_nofile = resource.getrlimit(resource.RLIMIT_NOFILE)
            want = len(os.listdir("/proc/self/fd")) + cfg["fd_headroom"]
            resource.setrlimit(resource.RLIMIT_NOFILE, (min(want, ctx.old_nofile[0]), ctx.old_nofile[1]))
        logger = None
        if cfg.get("logger"):
            import logging

            logger = logging.getLogger("verif-%d" % _seq[0])
            logger.handlers = []
            logger.propagate = False
            logger.setLevel(logging.INFO)
            ctx.loglines = []

            class _H(logging.Handler):
                def emit(self, record):
                    ctx.loglines.append(record.getMessage())

            logger.addHandler(_H())
        ctx.tw = w.TokenizerWorker(reader, obs, logger=logger, **dict(SPLIT_VARIANTS[cfg["split"]], **cfg.get("split_extra", {})))
        _log_stop_request(ctx, ctx.tw)
        for x in getattr(ctx, "pollers", ()):
            x.tw = ctx.tw
            x.peek = [y for y in [ctx.saver] + ctx.joiners if y is not None] if cfg.get("peek") else ()
        ctx.second = None
        if cfg.get("second"):
            # a second, independent pipeline in the same process (own reader, own saver, own observers)
            c2 = dict(cfg, pattern=cfg["second"], second=None, kind="run")
            ctx.second = make_factory(c2)()[1]

        def main():
            old = ctx.real_stdout = sys.stdout
            sys.stdout = ctx.stdout
            try:
                if ctx.saver is not None and not cfg.get("late_start"):
                    ctx.saver.start()
                if ctx.second is not None:
                    if ctx.second.saver is not None:
                        ctx.second.saver.start()
                    ctx.second.tw.start_all()
                if cfg.get("closed_before_start"):
                    # somebody (an earlier pipeline on the same reader) closed the reader after this worker was built
                    ctx.inner.close()
                if cfg.get("late_start"):
                    # the producer is started before its consumers: messages wait in the inboxes meanwhile
                    ctx.tw.start()
                    for o in obs:
                        o.start()
                    if ctx.saver is not None:
                        ctx.saver.start()
                else:
                    ctx.tw.start_all()
                if ctx.second is not None:
                    ctx.second.tw.join()
                    for o in ctx.second.obs:
                        o.join()
                    if ctx.second.saver is not None:
                        ctx.second.saver.join()
                if kind == "stop":
                    ctx.tw.stop_all()
                    # stop_all() is a synchronisation point: when it returns, every worker it stopped has ended
                    ctx.alive_after_sync = sorted(type(x).__name__ for x in [ctx.tw] + obs if _unfinished(x))
                    if ctx.saver is not None:
                        ctx.saver.join()
                elif cfg.get("main_waits") == "tokenizer":
                    # the caller waits for the tokenizer only and returns: the interpreter then waits for every
                    # non-daemon thread, so the observers still finish their queues (stdout stays redirected)
                    ctx.tw.join()
                    return
                else:
                    ctx.tw.join()
                    # the tokenizer closes its reader before it ends, and closing a stream saver waits for its writer:
                    # once the tokenizer has been joined the saved stream is complete
                    if ctx.saver is not None and _unfinished(ctx.saver):
                        ctx.alive_after_sync = ["StreamSaverWorker (after the tokenizer was joined)"]
                    for o in obs:
                        o.join()
                    if ctx.saver is not None:
                        ctx.saver.join()
            finally:
                if not (kind == "run" and cfg.get("main_waits") == "tokenizer"):
                    sys.stdout = old

        return main, ctx

    return make


def _unfinished(worker):
    t = getattr(worker, "_ctl_t", None)
    return t is not None and t.started and not t.finished


def _inject_write_fault(saver, k):
    """The k-th write to the saver's output fails as a full disk does."""
    wfp = saver._wfp
    real = wfp.writeframes
    count = [0]

    def writeframes(data):
        count[0] += 1
        if count[0] == k:
            raise OSError(28, "injected fault: No space left on device")
        return real(data)

    wfp.writeframes = writeframes


def _log_stop_request(ctx, tw):
    """Remember how many source reads had been started when the stop request reached the tokenizer worker."""
    stop_msg = lib()["w"]._STOP_PROCESSING
    real_send = tw.send
    ctx.started_at_stop = None

    def send(message):
        real_send(message)
        if message is stop_msg or (isinstance(message, str) and message == stop_msg):
            if ctx.started_at_stop is None and getattr(ctx, "inner", None) is not None:
                ctx.started_at_stop = ctx.inner.started

    tw.send = send


def make_cli(ctx, cfg, data, sw, ch):
    """The real cmdline.main(argv) as the controlled main thread."""
    L = lib()
    from auditok import cmdline, cmdline_util

    ctx.recs, ctx.joiners, ctx.regsavers = [], [], []
    ctx.printers = [] if "-q" in cfg["argv"] else [None]
    ctx.saver = ctx.outer = None
    ctx.tw = None
    ctx.status = "never returned"
    wav = os.path.join(ctx.dir, "in.wav")
    with wave.open(wav, "wb") as fp:
        fp.setframerate(cfg_sr(cfg))
        fp.setsampwidth(sw)
        fp.setnchannels(ch)
        fp.writeframes(data)
    argv = [wav, "-a", str(BLOCK), "-e", "50", "--printf", "{id} {start} {end} {duration}"]
    kw = SPLIT_VARIANTS[cfg["split"]]
    argv += ["-n", str(kw["min_dur"]), "-m", str(kw["max_dur"]), "-s", str(kw["max_silence"])]
    if kw.get("drop_trailing_silence"):
        argv.append("-d")
    if kw.get("strict_min_dur"):
        argv.append("-R")
    for a in cfg["argv"]:
        argv.append(a.replace("<WD>", ctx.dir + "/"))
    ctx.saver_file = os.path.join(ctx.dir, "stream.raw" if any("stream.raw" in a for a in cfg["argv"]) else "stream.wav")
    if any(a == "-C" for a in cfg["argv"]):
        import tempfile

        ctx.cmdlogs = [os.path.join(ctx.dir, "cmd.log")]
        ctx.old_tempdir = getattr(ctx, "old_tempdir", tempfile.tempdir)
        tempfile.tempdir = ctx.dir
    for stale in cfg.get("preexisting", ()):
        with open(os.path.join(ctx.dir, "ev_%d.wav" % stale), "wb") as fp:
            fp.write(b"stale file of an earlier run")

    class LoggingAudioReader(L["util"].AudioReader):
        def __init__(self, *a, **k):
            super().__init__(*a, **k)
            self.blocks = []
            self.nones = 0
            self.started = 0
            ctx.inner = self

        def read(self):
            self.started += 1
            b = super().read()
            if b is None:
                self.nones += 1
            else:
                self.blocks.append(b)
            return b

    real_init = cmdline_util.initialize_workers

    def init_workers(**kwargs):
        saver, tw = real_init(**kwargs)
        ctx.tw = tw
        _log_stop_request(ctx, tw)
        w = L["w"]
        if isinstance(saver, w.StreamSaverWorker):
            ctx.saver = saver
        for o in tw._observers:
            if isinstance(o, w.AudioEventsJoinerWorker):
                o._verif_file = ctx.saver_file
                ctx.joiners.append(o)
            elif isinstance(o, w.RegionSaverWorker):
                ctx.regsavers.append(o)
        return saver, tw

    def main():
        old = sys.stdout, sys.stderr, cmdline_util.AudioReader, cmdline.initialize_workers
        sys.stdout = ctx.stdout
        sys.stderr = io.StringIO()
        cmdline_util.AudioReader = LoggingAudioReader
        cmdline.initialize_workers = init_workers
        try:
            ctx.status = cmdline.main(argv)
        finally:
            sys.stdout, sys.stderr, cmdline_util.AudioReader, cmdline.initialize_workers = old

    return main, ctx


def cleanup(ctx):
    if getattr(ctx, "second", None) is not None:
        cleanup(ctx.second)
    _cleanup1(ctx)


def _restore_stdout(ctx):
    if getattr(ctx, "real_stdout", None) is not None and sys.stdout is ctx.stdout:
        sys.stdout = ctx.real_stdout


def _cleanup1(ctx):
    _restore_stdout(ctx)
    if getattr(ctx, "old_nofile", None) is not None:
        import resource

        resource.setrlimit(resource.RLIMIT_NOFILE, ctx.old_nofile)
        ctx.old_nofile = None
    if hasattr(ctx, "old_tempdir"):
        import tempfile

        tempfile.tempdir = ctx.old_tempdir
        del ctx.old_tempdir
    # close whatever an aborted execution left open, then drop the files
    # (their __del__ drains the inbox and flushes: leave it nothing to do)
    for x in [ctx.saver] + ctx.joiners:
        if x is not None:
            try:
                inbox = getattr(x, "_inbox", None)
                if inbox is not None:
                    inbox.items.clear()
                if getattr(x, "_cache", None):
                    x._cache = []
                x._wfp.close()
            except Exception:
                pass
    shutil.rmtree(ctx.dir, ignore_errors=True)


def _read_saved(path, sr, sw, ch):
    """A saved stream: wav, or (name ending in .raw) headerless data in the known format."""
    if path.endswith(".raw"):
        with open(path, "rb") as fp:
            return (sr, sw, ch, fp.read())
    return _read_wav(path)


def _read_wav(path):
    with wave.open(path, "rb") as fp:
        return (fp.getframerate(), fp.getsampwidth(), fp.getnchannels(), fp.readframes(-1))


def _short(ids):
    return repr(ids) if len(ids) <= 8 else "%r... (%d ids, last %r)" % (ids[:6], len(ids), ids[-1])


def check(ex, ctx):
    """The oracle for one finished execution; returns a complaint or None."""
    _restore_stdout(ctx)
    cfg = ctx.cfg
    L = lib()
    sw = cfg.get("sw", SW)
    ch = cfg.get("ch", CH)
    sr = cfg_sr(cfg)
    if ex.outcome == "exit-kills-daemon-threads":
        return "the program's last non-daemon thread ended while %s still had work: as daemon threads they are killed at interpreter exit" % (
            sorted(t.name for t in ex.th if t.started and not t.finished),)
    if getattr(ctx, "alive_after_sync", None) and not cfg.get("tolerate_crash"):
        return "still running after the call that is supposed to wait for them returned: %s" % ", ".join(ctx.alive_after_sync)
    live = getattr(ctx, "live_stdin", None)
    if ex.outcome == "deadlock" and live is not None and live.blocked_request == max(1, round(sr * BLOCK)) * sw * ch:
        # the producer paused while the tokenizer was waiting for its next window: with a live input that wait is not
        # the library's doing, and nothing can be said about this execution
        return None
    if ex.outcome != "done":
        blocked = getattr(ex, "blocked", None) or [(t.name, t.pending and t.pending[0]) for t in ex.th if t.started and not t.finished]
        return "%s: threads never end: %s" % (ex.outcome, blocked)
    tolerate = cfg.get("tolerate_crash", ())
    for t in ex.th:
        if t.crash is not None and not (t.name == "Crash" and "injected fault" in str(t.crash)) and t.name not in tolerate:
            return "thread %s died with %r" % (t.name, t.crash)
    if getattr(ctx, "second", None) is not None:
        class _Ex:  # the second pipeline ran in the same execution
            outcome = ex.outcome
            th = []
        m2 = check(_Ex, ctx.second)
        if m2:
            return "second pipeline (pattern %s) in the same process: %s" % (cfg["second"], m2)
    if cfg["kind"] == "cli" and ctx.status != 0:
        return "cmdline.main returned %r" % (ctx.status,)
    if cfg.get("read_fault"):
        # the source failed in the middle of the stream: the tokenizer thread is dead; what is demanded is that a stop
        # still ends every other thread, that nothing delivered is wrong, and that the saved stream holds the blocks read
        exp_all = exp_for(cfg, ctx.data)
        for n, r in enumerate(ctx.recs):
            if r.log != [(i, d, s) for i, d, s, e, du in exp_all][: len(r.log)]:
                return "after the source failed, observer #%d holds detections that are not a prefix of the stream's" % n
        if ctx.saver is not None:
            try:
                sr_, sw_, ch_, frames = _read_saved(ctx.saver_file, sr, sw, ch)
            except Exception as exc:
                return "after the source failed, the saved stream is not a readable wav: %r" % (exc,)
            if frames != b"".join(ctx.inner.blocks):
                return "after the source failed, the saved stream holds %d bytes, %d were read" % (len(frames), len(b"".join(ctx.inner.blocks)))
        return None
    if cfg["kind"] in ("stop", "cli"):
        at_stop = getattr(ctx, "started_at_stop", None)
        if at_stop is not None and ctx.inner.started - at_stop > 1:
            # one read may already have passed its stop test when the request arrives; anything beyond that is new reading
            return "the tokenizer worker went on reading after the stop request: %d reads had been started then, %d in the end" % (
                at_stop, ctx.inner.started)
        live = getattr(ctx, "live_stdin", None)
        if live is not None and live.taken > len(b"".join(ctx.inner.blocks)):
            return "%d bytes were taken from standard input, the blocks read hold %d" % (live.taken, len(b"".join(ctx.inner.blocks)))
        k = len(ctx.inner.blocks)
        seen = b"".join(ctx.inner.blocks)
        if seen != ctx.data[: len(seen)]:
            return "reader handed out bytes that are not a prefix of the source"
        exp = exp_for(cfg, seen)
        what = "the %d blocks read before the stop" % k
    else:
        seen = b"".join(ctx.inner.blocks)
        if cfg.get("hop"):
            from .chk_reader import blocks_of

            bps = sw * ch
            smp = [ctx.data[i : i + bps] for i in range(0, len(ctx.data), bps)]
            want_blocks = blocks_of(smp, round(sr * BLOCK), round(sr * cfg["hop"]))
            if ctx.inner.blocks != want_blocks:
                return "stream ended after %d overlapping blocks, the source holds %d" % (len(ctx.inner.blocks), len(want_blocks))
        elif seen != ctx.data:
            return "stream ended but only %d of %d bytes were read" % (len(seen), len(ctx.data))
        exp = exp_for(cfg, ctx.data)
        what = "the whole stream"
    want = [(i, d, s) for i, d, s, e, du in exp]
    dets = [(d.id, d.start, d.end, d.duration) for d in ctx.tw.detections]
    if dets != [(i, s, e, du) for i, d, s, e, du in exp]:
        return "tokenizer worker's detections %r differ from split() of %s %r" % (
            dets, what, [(i, s, e, du) for i, d, s, e, du in exp])
    for x in getattr(ctx, "pollers", ()):
        for k, ids in x.polls:
            if ids != list(range(1, len(ids) + 1)) or len(ids) < k:
                return "while an observer handled detection %d the tokenizer worker's own detections list held ids %s" % (k, _short(ids))
    for n, r in enumerate(ctx.recs):
        if r.log != want:
            return "observer #%d processed ids %s, split() of %s gives ids %s (or data/start differ)" % (
                n, _short([x[0] for x in r.log]), what, _short([x[0] for x in want]))
    for n, r in enumerate(ctx.recs):
        if r.metas != [(s, e) for i, d, s, e, du in exp]:
            return "observer #%d saw the metadata (start, end) %s on its detections, split() of %s gives %s" % (
                n, _short(r.metas), what, _short([(s, e) for i, d, s, e, du in exp]))
    for n, log in enumerate(getattr(ctx, "cmdlogs", ())):
        try:
            sizes = [int(x) for x in open(log).read().split()] if os.path.exists(log) else []
        except ValueError:
            sizes = "unreadable"
        if sizes != [44 + len(d) for i, d, s in want]:
            return "the command observer #%d ran for %s detections %s, split() of %s gives %d" % (
                n, len(sizes) if isinstance(sizes, list) else "?", _short(sizes), what, len(want))
    for n, pl in enumerate(getattr(ctx, "players", ())):
        if pl.played != [d for i, d, s in want]:
            return "player #%d played %d detections %r, split() of %s gives %d" % (
                n, len(pl.played), [len(x) for x in pl.played], what, len(want))
    if ctx.printers:
        fmt = "{:.3f}".format
        lines = ["%d %s %s %s" % (i, fmt(s), fmt(e), fmt(du)) for i, d, s, e, du in exp]
        got = ctx.stdout.getvalue().splitlines()
        if got != lines * len(ctx.printers) and sorted(got) != sorted(lines * len(ctx.printers)):
            return "printed %d lines %s, expected %d %s" % (len(got), _short(got), len(lines), _short(lines))
        if len(ctx.printers) == 1 and got != lines:
            return "printed lines out of order: %r" % (got,)
    for j in (ctx.joiners if "AudioEventsJoinerWorker" not in tolerate else ()):
        try:
            sr_, sw_, ch_, frames = _read_saved(j._verif_file, sr, sw, ch)
        except Exception as exc:
            return "joined-events file is not a readable wav: %r" % (exc,)
        sil = b"\0" * (round(cfg.get("silence", 0.1) * sr) * sw * ch)
        ref = sil.join(d for i, d, s, e, du in exp)
        if (sr_, sw_, ch_) != (sr, sw, ch):
            return "joined-events file has parameters %r" % ((sr_, sw_, ch_),)
        if frames != ref:
            return "joined-events file holds %d bytes, events joined by %d zero bytes are %d bytes (or content differs)" % (
                len(frames), len(sil), len(ref))
        if cfg["kind"] == "run":
            r = None if cfg.get("hop") else L["core"].split_and_join_with_silence(
                ctx.data, cfg.get("silence", 0.1), sr=sr, sw=sw, ch=ch, analysis_window=BLOCK,
                **dict(SPLIT_VARIANTS[cfg["split"]], **cfg.get("split_extra", {})))
            if not cfg.get("hop") and (r.data if r is not None else b"") != frames:
                return "joined-events file differs from split_and_join_with_silence()"
    for rs in (ctx.regsavers if "RegionSaverWorker" not in tolerate else ()):
        tpl = os.path.join(ctx.dir, cfg.get("template", "ev_{id}.wav"))
        names = set()
        for i, d, s, e, du in exp:
            fn = tpl.format(id=i, start=s, end=e, duration=du)
            names.add(os.path.basename(fn))
            if not os.path.exists(fn):
                return "no file %s for detection %d" % (os.path.basename(fn), i)
            try:
                sr_, sw_, ch_, frames = _read_wav(fn)
            except Exception as exc:
                return "file %s for detection %d is not a readable wav: %r" % (os.path.basename(fn), i, exc)
            if (sr_, sw_, ch_, frames) != (sr, sw, ch, d):
                return "file %s does not hold detection %d" % (os.path.basename(fn), i)
        extra = set(f for f in os.listdir(ctx.dir) if f.startswith(os.path.basename(tpl).split("{")[0])) - names
        if extra:
            return "unexpected region files %r" % sorted(extra)
    if ctx.saver is not None:
        path = ctx.saver_file
        if cfg.get("saver_name") and path.endswith(".raw") and cfg["kind"] == "run":
            # a format that needs no external encoder: after export_audio() and the worker's release the raw file is there
            try:
                ctx.saver.export_audio()
                type(ctx.saver).__del__(ctx.saver)
            except Exception as exc:
                return "export_audio() / release raised %r" % (exc,)
            if not os.path.exists(path):
                return "after export_audio() and the release of the worker the file %s does not exist" % os.path.basename(path)
        if cfg.get("saver_name") and not path.endswith((".wav", ".raw")):
            # a format that needs an external encoder: where none can be run, export_audio() warns that the audio was
            # kept as <name>.wav - that file is then the worker's product, and it is still there after the worker is gone
            from auditok.exceptions import AudioEncodingWarning

            try:
                ctx.saver.export_audio()
                return None  # an encoder is installed here: nothing this harness can read back
            except AudioEncodingWarning:
                pass
            except Exception as exc:
                return "export_audio() raised %r" % (exc,)
            try:
                type(ctx.saver).__del__(ctx.saver)  # what happens when the worker is released
            except Exception:
                pass
            path = path + ".wav"
            if not os.path.exists(path):
                return "after the failed export the fallback file %s is gone: the saved stream exists nowhere" % os.path.basename(path)
        try:
            sr_, sw_, ch_, frames = _read_saved(path, sr, sw, ch)
        except Exception as exc:
            return "saved stream is not a readable wav: %r" % (exc,)
        if (sr_, sw_, ch_) != (sr, sw, ch):
            return "saved stream has parameters %r" % ((sr_, sw_, ch_),)
        if frames != b"".join(ctx.inner.blocks):
            return "saved stream holds %d bytes, the wrapped reader produced %d (or content differs)" % (
                len(frames), len(b"".join(ctx.inner.blocks)))
        if ctx.outer is not None and ctx.outer.blocks != ctx.inner.blocks:
            return "tokenizer saw blocks %r, wrapped reader produced %r" % (
                [b.hex() for b in ctx.outer.blocks], [b.hex() for b in ctx.inner.blocks])
    return None


# ---------------------------------------------------------------------------


def all_patterns(maxlen):
    out = []
    for n in range(maxlen + 1):
        for p in itertools.product("aA", repeat=n):
            out.append("".join(p))
    return out


def work_directed(task):
    """Directed starvation schedules on a long stream (NOT exhaustive; complements the small-scope search
    for capacity effects such as bounded queues or caches that need hundreds of pending messages)."""
    cfg, K, I, mode, bound, cap = task[:6]
    make = make_factory(cfg)
    names = []
    ex0, ctx0 = sched.run_once(make, [], K, I)
    names = sorted(set(t.name for t in ex0.th))
    cleanup(ctx0)
    viol = []
    runs = 0
    outcomes = {}
    for nm in names:
        ex, ctx = sched.run_once(make, [], K, I, policy=sched.starve_policy(nm))
        runs += 1
        msg = check(ex, ctx)
        outcomes["starve " + nm] = "%s, %d steps" % (ex.outcome, len(ex.trace))
        cleanup(ctx)
        if msg:
            key = "cfg=%s directed=starve:%s" % (cfg_str(cfg), nm)
            viol.append((key, msg, {"kind": "sched", "cfg": cfg, "timeouts": K, "interrupts": I, "mode": mode,
                                    "policy": nm, "schedule": []}))
    cov = {"evaluations": runs, "directed_runs_not_exhaustive": runs, "states": 0, "transitions": 0,
           "traces_validated_against_impl": runs, "distinct_nontrivial": runs,
           "outcomes": {cfg_str(cfg) + "/directed": outcomes}}
    return {"cov": cov, "viol": viol}


def work_race(task):
    """Race-directed pass: a happens-before detector looks for unsynchronised accesses to worker
    attributes on a handful of schedules; if it finds any, a line-level search with scheduling points
    in the racing functions only (preemption bound `bound`) looks for an execution that breaks the property."""
    cfg, K, I, mode, bound, cap = task[:6]
    make = make_factory(cfg)
    codes, races = sched.find_races(make, K, I, cleanup)
    cov = {"evaluations": 0, "states": 0, "transitions": 0, "traces_validated_against_impl": 0, "distinct_nontrivial": 0,
           "race_detector_configs": 1, "races_found": len(races)}
    viol = []
    if codes:
        cov["races"] = [cfg_str(cfg) + ": " + r for r in races[:6]]
        st = sched.explore(make, check, timeouts=K, interrupts=I, line_mode=True, preemption_bound=bound,
                           max_executions=cap or 6000, cleanup=cleanup, line_codes=codes, max_seconds=TASK_SECONDS[0])
        if st.cap_hit:
            cov["caps_hit"] = [cfg_str(cfg) + " (race-directed): " + st.cap_hit]
            cov["exhaustive"] = False
        cov.update({"evaluations": st.executions, "states": st.states, "transitions": st.transitions,
                    "traces_validated_against_impl": st.executions, "distinct_nontrivial": st.executions})
        for trace, msg, labels in st.violations[:2]:
            small = sched.minimize(make, check, trace, K, I, True, cleanup, line_codes=codes)
            if small:
                trace, msg, labels = small
            key = "cfg=%s race-directed schedule=%s" % (cfg_str(cfg), ".".join(map(str, trace)))
            viol.append((key, msg + " [unsynchronised access: %s]" % races[0], {
                "kind": "sched", "cfg": cfg, "timeouts": K, "interrupts": I, "mode": "line", "schedule": trace,
                "line_codes": sorted(list(c) for c in codes), "steps": sched.describe(labels)}))
    return {"cov": cov, "viol": viol}


def work(task):
    cfg, K, I, mode, bound, cap = task[:6]
    if mode == "directed":
        return work_directed(task)
    if mode == "race":
        return work_race(task)
    start_stack = task[6] if len(task) > 6 else None
    make = make_factory(cfg)
    budget = SPLIT_BUDGET if start_stack is not None else None
    st = sched.explore(make, check, timeouts=K, interrupts=I, line_mode=(mode == "line"),
                       preemption_bound=bound, max_executions=cap or budget, cleanup=cleanup, start_stack=start_stack,
                       return_leftover=start_stack is not None, max_seconds=TASK_SECONDS[0])
    viol = []
    for trace, msg, labels in st.violations[:2]:
        small = sched.minimize(make, check, trace, K, I, mode == "line", cleanup)
        if small:
            trace, msg, labels = small
        nz = sum(1 for c in trace if c)
        key = "cfg=%s schedule=%s" % (cfg_str(cfg), ".".join(map(str, trace)))
        viol.append((key, msg, {"kind": "sched", "cfg": cfg, "timeouts": K, "interrupts": I, "mode": mode,
                                "schedule": trace, "deviations": nz,
                                "steps": sched.describe(labels)}))
    cov = {"evaluations": st.executions, "states": st.states, "transitions": st.transitions,
           "traces_validated_against_impl": st.executions - st.pruned,
           "distinct_nontrivial": st.executions - st.pruned,
           "pruned_by_state_cache": st.pruned,
           "outcomes": {cfg_str(cfg) + "/" + mode: dict(st.outcomes)},
           "samples": [{"cfg": cfg, "mode": mode, "timeouts": K, "executions": st.executions, "states": st.states,
                        "max_schedule_len": st.max_points,
                        "one_complete_schedule": ({"choices": st.sample[0], "steps": st.sample[1], "outcome": st.sample[2]}
                                                  if st.sample else None)}]}
    if st.cap_hit:
        cov["caps_hit"] = [cfg_str(cfg) + ": " + st.cap_hit]
        cov["exhaustive"] = False
    out = {"cov": cov, "viol": viol}
    if start_stack is not None and st.stack:
        out["leftover"] = (task[:6], st.stack)  # handed back for redistribution (work sharing)
    return out


TASK_SECONDS = [90]  # wall-clock cap per exploration task (a cap is reported, never a verdict)
SPLIT_BUDGET = 250  # executions per split task before the remaining subtree is handed back


def split_line_tasks(tasks, parts=24):
    """An uncached (line-level) exploration with bound >= 2 is split into independent
    subtrees: the root execution is run here, its first-level alternatives dealt out."""
    out = []
    for t in tasks:
        cfg, K, I, mode, bound, cap = t
        if mode != "line" or not bound or bound < 2:
            out.append(t)
            continue
        make = make_factory(cfg)
        st = sched.explore(make, check, timeouts=K, interrupts=I, line_mode=True, preemption_bound=bound,
                           cleanup=cleanup, only_root=True)
        stack = st.stack or []
        if st.violations or not stack:
            out.append(t)
            continue
        for i in range(parts):
            chunk = stack[i::parts]
            if chunk:
                out.append((cfg, K, I, mode, bound, cap, chunk))
    return out


def cfg_str(cfg):
    return "%s:%s:%s:%s%s" % (cfg["kind"], cfg["pattern"] or "-", "+".join(cfg["observers"]) or "none", cfg["split"],
                              "".join(":%s=%s" % (k, cfg[k]) for k in sorted(cfg) if k not in ("kind", "pattern", "observers", "split")))


def plan(prop, tier):
    tasks = []
    quick = tier == "quick"
    if prop == "C12":
        L = 4 if quick else 5
        K = 2 if quick else 3
        osets = [[], ["rec"], ["print"], ["rec", "rec"], ["rec", "print"]]
        if not quick:
            osets += [["rec", "rec", "rec"], ["rec", "join"], ["rec", "regsave"]]
        for p in all_patterns(L):
            for o in osets:
                k = K if len(o) <= 1 or len(p) <= 3 else K - 1
                if len(o) >= 3:
                    k = 1
                tasks.append((dict(kind="run", pattern=p, observers=o, split="s0"), k, 0, "sync", None, None))
        for p in (["AaA", "AAAA"] if quick else ["AaA", "AAAA", "AaAA", "AAaaA"]):
            for o in (["rec"], ["rec", "print"]):
                tasks.append((dict(kind="run", pattern=p, observers=o, split="s1"), K, 0, "sync", None, None))
        for p in (["AAA", "AAAA"] if quick else ["AAA", "AAAA", "AAAAA", "AAaAAA"]):
            for o in (["rec"], ["rec", "rec"]):
                tasks.append((dict(kind="run", pattern=p, observers=o, split="s2"), 1 if len(o) > 1 else K, 0, "sync", None, None))
        # a logger on the tokenizer worker, streams with and without detections
        for p in ("", "a", "aa", "AaA"):
            tasks.append((dict(kind="run", pattern=p, observers=["rec", "print"], split="s0", logger=True), 1, 0, "sync", None, None))
        # two independent pipelines in one process
        tasks.append((dict(kind="run", pattern="AaA", second="AAAA", observers=["rec"], split="s0"), 0, 0, "sync", None, None))
        for p in ("AaA", "AAAA"):
            tasks.append((dict(kind="run", pattern=p, observers=["play", "rec"], split="s2"), 1, 0, "sync", None, None))
        # a reader closed between the worker's construction and its start; a print template naming {timestamp} with a format spec
        tasks.append((dict(kind="run", pattern="AaA", observers=["rec"], split="s0", closed_before_start=True), 0, 0, "sync", None, None))
        tasks.append((dict(kind="run", pattern="AaA", observers=["print_ts", "rec"], split="s0"), 1, 0, "sync", None, None))
        # every split option reaches split() under its own name: exactly one / both of the two boolean modes
        for sp, p in (("s1d", "AAaaA"), ("s1d", "AaA"), ("s1s", "AAAA"), ("s1s", "AAAAaA"), ("s1sd", "AAAAAaaA")):
            tasks.append((dict(kind="run", pattern=p, observers=["rec"], split=sp), 0, 0, "sync", None, None))
        # digital silence and thresholds at / below the -200 dB floor: the worker thread decides as split() does in the caller's thread
        for thr in (-250, -200):
            tasks.append((dict(kind="run", pattern="zAzzA", observers=["rec"], split="s0", split_extra={"energy_threshold": thr}), 0, 0, "sync", None, None))
        # other legitimate ways of driving the threads: the producer started before its consumers; a caller that only
        # waits for the tokenizer and returns (the interpreter then waits for the non-daemon threads)
        for p in ("AaA", "AAAA"):
            tasks.append((dict(kind="run", pattern=p, observers=["rec", "print"], split="s2", late_start=True), 1, 0, "sync", None, None))
            tasks.append((dict(kind="run", pattern=p, observers=["rec", "print"], split="s2", main_waits="tokenizer"), 1, 0, "sync", None, None))
        # two observers that write files, one of which can never write: the other still saves every detection
        tasks.append((dict(kind="run", pattern="AAaA", observers=["regsave_bad", "regsave", "rec"], split="s2", tolerate_crash=["RegionSaverWorker"]),
                      1, 0, "sync", None, None))
        # environment faults the other threads must survive: the reader fails when closed at the end of the stream;
        # a file-writing observer dies of a full disk at its k-th write; files of an earlier run already carry the names
        for p in ("", "AaA", "AAAA"):
            tasks.append((dict(kind="run", pattern=p, observers=["rec", "print"], split="s2", close_fault=True,
                               tolerate_crash=["TokenizerWorker"]), 1, 0, "sync", None, None))
        for k in (1, 2):
            tasks.append((dict(kind="run", pattern="AAAA", observers=["join", "rec"], split="s2", join_fault=k,
                               tolerate_crash=["AudioEventsJoinerWorker"]), 1, 0, "sync", None, None))
        tasks.append((dict(kind="run", pattern="AAaA", observers=["regsave", "rec"], split="s2", preexisting=[2, 3]), 1, 0, "sync", None, None))
        tasks.append((dict(kind="cli", pattern="AAaA", observers=[], split="s2", argv=["-o", "<WD>ev_{id}.wav"], preexisting=[2]), 1, 0, "sync", None, None))
        # channel selection given to the worker (long name and alias) on stereo audio whose channels differ
        for extra in ({"use_channel": 0}, {"uc": 1}, {"uc": "mix"}, {"use_channel": -1, "eth": 60}):
            tasks.append((dict(kind="run", pattern="LRaA", observers=["rec"], split="s2", ch=2, split_extra=extra), 1, 0, "sync", None, None))
        for p, o, sp in (("AaA", ["rec", "print"], "s0"), ("AAAA", ["rec", "rec"], "s2"), ("AAaA", ["rec", "join", "regsave"], "s1")):
            tasks.append((dict(kind="run", pattern=p, observers=o, split=sp), 1, 0, "race", 2 if quick else 3, None))
        tasks.append((dict(kind="run", pattern="AaA", second="AAAA", observers=["rec", "print"], split="s0"), 0, 0, "race", 2, None))
        # an observer that looks at the tokenizer worker's own detections list while it handles a detection
        for p in ("AaA", "AAAA"):
            tasks.append((dict(kind="run", pattern=p, observers=["poll", "rec"], split="s0" if p == "AaA" else "s2"), 1, 0, "sync", None, None))
        for p, sp in (("AaA", "s0"), ("AA", "s2")):
            tasks.append((dict(kind="run", pattern=p, observers=["poll"], split=sp), 1, 0, "race", 2, None if quick else 40000))
        # directed starvation schedules on a long stream (300 detections): capacity effects
        tasks.append((dict(kind="run", pattern="A" * 300, observers=["rec", "print"], split="s2"), 10 ** 6, 0, "directed", None, None))
        tasks.append((dict(kind="run", pattern="A" * 150, observers=["rec", "rec", "print"], split="s2"), 10 ** 6, 0, "directed", None, None))
        # the command observer (-C), with few spare file descriptors, on 150 detections; and under all interleavings on a short stream
        tasks.append((dict(kind="run", pattern="A" * 150, observers=["cmd", "rec"], split="s2", fd_headroom=60), 10 ** 6, 0, "directed", None, None))
        tasks.append((dict(kind="run", pattern="AaA", observers=["cmd", "rec"], split="s0"), 0, 0, "sync", None, None))
        # ... and assembled by the command line program: -C alone, -C with a debug file, -C with -D
        for extra in ([], ["--debug-file", "<WD>debug.log"], ["-D"]):
            tasks.append((dict(kind="cli", pattern="AaA", observers=[], split="s0", argv=["-C", "wc -c < {file} >> <WD>cmd.log"] + extra),
                          0, 0, "sync", None, None))
        # an observer that died on its first message must not hold up the others, however many detections follow
        tasks.append((dict(kind="run", pattern="A" * 300, observers=["crash", "rec", "print"], split="s2"), 10 ** 6, 0, "directed", None, None))
        tasks.append((dict(kind="run", pattern="AAAA", observers=["crash", "rec"], split="s2"), 1, 0, "sync", None, None))
        # line-level pass: the stand-in for a race detector
        for p in (["A", "AaA"] if quick else ["A", "AaA", "AAAA"]):
            tasks.append((dict(kind="run", pattern=p, observers=["rec"], split="s0"), 0, 0, "line", 1, None))
        tasks.append((dict(kind="run", pattern="A", observers=["print"], split="s0"), 0, 0, "line", 1, None))
        tasks.append((dict(kind="run", pattern="Aa", observers=["rec", "print"], split="s0"), 0, 0, "line", 1, None))
        if not quick:
            tasks.append((dict(kind="run", pattern="A", observers=["rec"], split="s0"), 0, 0, "line", 2, None))
            tasks.append((dict(kind="run", pattern="AaA", observers=["rec", "rec"], split="s0"), 0, 0, "line", 1, None))
    if prop == "C14":
        L = 4 if quick else 5
        K = 1 if quick else 2
        for p in all_patterns(L):
            for o, sv in ((["rec"], False), (["rec", "print"], False), (["rec"], True)):
                if len(p) == L and len(o) > 1 and quick:
                    continue
                cfg = dict(kind="stop", pattern=p, observers=o, split="s0")
                if sv:
                    cfg["saver"] = True
                    cfg["cache"] = 0.1
                tasks.append((cfg, K, 0, "sync", None, None))
        for p in (["AaA", "AAAA", "AAaA"] if quick else ["AaA", "AAAA", "AAaA", "AaAAa", "AAAAA"]):
            tasks.append((dict(kind="stop", pattern=p, observers=["rec", "rec"], split="s1"), K, 0, "sync", None, None))
            tasks.append((dict(kind="stop", pattern=p, observers=["rec"], split="s1d", saver=True, cache=0.15), K, 0, "sync", None, None))
        # the real command line program, Ctrl-C arriving in any sleep of the main loop
        for p in (["", "A", "AaA", "AAAA"] if quick else all_patterns(4)):
            for argv in ([], ["-O", "<WD>stream.wav"], ["-q", "-O", "<WD>stream.wav", "-j", "0.1"], ["-o", "<WD>ev_{id}.wav"]):
                if quick and len(p) > 3 and len(argv) > 2:
                    continue
                tasks.append((dict(kind="cli", pattern=p, observers=[], split="s0", argv=argv), 0 if quick else 1, 1, "sync", None, None))
        for p in (["A"] if quick else ["A", "AaA"]):
            tasks.append((dict(kind="stop", pattern=p, observers=["rec"], split="s0"), 0, 0, "line", 1, None))
        for p in (["AaA", "AAAA"] if quick else ["AaA", "AAAA", "AAaA", "AaAa"]):
            tasks.append((dict(kind="stop", pattern=p, observers=["regsave"], split="s0"), K, 0, "sync", None, None))
            tasks.append((dict(kind="stop", pattern=p, observers=["join"], split="s2"), K, 0, "sync", None, None))
            tasks.append((dict(kind="stop", pattern=p, observers=["rec"], split="s0", saver=True, cache=1000, sw=1, ch=1), K, 0, "sync", None, None))
        tasks.append((dict(kind="stop", pattern="AAA", observers=["regsave", "print"], split="s2"), 0, 0, "sync", None, None))
        tasks.append((dict(kind="stop", pattern="AAAAA", observers=["join"], split="s0", saver=True, cache=0.1, sw=1, ch=3), 0, 0, "sync", None, None))
        for p in (["AaA"] if quick else ["A", "AaA", "AAAA"]):
            tasks.append((dict(kind="cli", pattern=p, observers=[], split="s0", argv=["-O", "<WD>stream.raw"]), 0, 1, "sync", None, None))
        tasks.append((dict(kind="stop", pattern="A" * 300, observers=["rec"], split="s2", saver=True, cache=0.5), 10 ** 6, 0, "directed", None, None))
        for p in ("AaA", "AAAA"):
            tasks.append((dict(kind="stop", pattern=p, observers=["play"], split="s2"), K, 0, "sync", None, None))
        # the source fails at read k: the tokenizer thread dies, a stop must still end the saver and the observers
        for k_ in (1, 3):
            tasks.append((dict(kind="stop", pattern="AaAA", observers=["rec"], split="s0", saver=True, cache=0.1, read_fault=k_,
                               tolerate_crash=["TokenizerWorker"]), 0, 0, "sync", None, None))
        # a logger on the worker and a source that has no stream position (lazily read file); standard input of a live producer
        for p in ("AaAA", "AAAA"):
            tasks.append((dict(kind="stop", pattern=p, observers=["rec"], split="s0", logger=True, lazy_file=True), 0 if quick else 1, 0, "sync", None, None))
            tasks.append((dict(kind="stop", pattern=p, observers=["rec"], split="s0", stdin_live=True), 0 if quick else 1, 0, "sync", None, None))
        tasks.append((dict(kind="stop", pattern="AaAA", observers=["rec"], split="s0", stdin_live=True, saver=True, cache=0.1), 0, 0, "sync", None, None))
        # a live source that hands out an empty block now and then (not the end of the stream), under the stream saver
        tasks.append((dict(kind="stop", pattern="AaAAaA", observers=["rec"], split="s0", saver=True, cache=0.1, ragged=[1, 1, 0, 1]), 0, 0, "sync", None, None))
        # stops arriving deep inside a silence / between detections, with plenty of stream left
        for p in (["aaaAA", "AaaaaA"] if quick else ["aaaAA", "AaaaaA", "aaaaaA", "AAaaaaAA"]):
            tasks.append((dict(kind="stop", pattern=p, observers=["rec"], split="s0"), 0 if quick else 1, 0, "sync", None, None))
        # an observer dies on its first message; the stop must still end everything (also with > 1000 later detections)
        for p in ("AaA", "AAAA"):
            tasks.append((dict(kind="stop", pattern=p, observers=["crash", "rec"], split="s2"), K, 0, "sync", None, None))
        tasks.append((dict(kind="stop", pattern="A" * 1100, observers=["crash", "rec"], split="s2"), 0, 0, "directed", None, None))
        # joins that give up (a timeout on join) must not be taken for termination
        tasks.append((dict(kind="stop", pattern="AaA", observers=["rec"], split="s0", saver=True, cache=0.1), 2, 0, "sync", None, None))
        tasks.append((dict(kind="stop", pattern="AAaA", observers=["rec", "print"], split="s0", saver=True, cache=0.1), 1, 0, "race", 2 if quick else 3, None))
        tasks.append((dict(kind="cli", pattern="AaA", observers=[], split="s0", argv=["-O", "<WD>stream.wav"]), 0, 1, "race", 2, None))
        tasks.append((dict(kind="cli", pattern="AAAA", observers=[], split="s0", argv=["-q", "-O", "<WD>stream.wav", "-j", "0.1", "-o", "<WD>ev_{id}.wav"]), 0, 1, "race", 2, None))
    if prop == "C13":
        L = 4 if quick else 5
        caches = [0, 0.1, 0.15, 1000]
        base = dict(kind="run", split="s0")
        # (a) reader thread vs writer thread: stream saver alone, every stream, every cache size
        for p in all_patterns(L):
            for c in caches:
                tasks.append((dict(base, pattern=p, observers=[], saver=True, cache=c), 1 if quick else 2, 0, "sync", None, None))
        # (b) joiner + region saver as observers
        for p in all_patterns(L):
            k = 1 if (len(p) < L or not quick) else 0
            tasks.append((dict(base, pattern=p, observers=["join", "regsave"]), k, 0, "sync", None, None))
        # (c) everything together
        for p in (["", "a", "A", "AaA", "AAAA"] if quick else all_patterns(4)):
            for c in ((0.1, 1000) if quick else caches):
                tasks.append((dict(base, pattern=p, observers=["join", "regsave"], saver=True, cache=c),
                              0 if quick else 1, 0, "sync", None, None))
        # silence durations x file name templates
        for p in ["A", "AaA", "AaAaA"[:L], "aaaA"]:
            for sil in (0, 0.1, 0.25, 0.16, 0.37):
                for tpl in ("ev_{id}.wav", "ev_{id}_{start}_{end}.wav", "ev_{duration:.3f}_{id}.wav"):
                    tasks.append((dict(base, pattern=p, observers=["join", "regsave"], silence=sil, template=tpl),
                                  0, 0, "sync", None, None))
        # output names without an extension (the format then defaults to wav) under a directory whose name has a dot;
        # encoder keyword arguments handed to the region saver (they describe no audio: the detection's own parameters count)
        tasks.append((dict(base, pattern="AaA", observers=["join", "regsave"], saver=True, cache=0.1, noext=True), 0, 0, "sync", None, None))
        tasks.append((dict(base, pattern="AaA", observers=["regsave"], regsave_extra={"sampling_rate": 3 * SR, "sample_width": 1, "channels": 1}),
                      0, 0, "sync", None, None))
        tasks.append((dict(base, pattern="AaA", observers=["regsave"], regsave_extra={"sr": 3 * SR, "sw": 1, "ch": 1}, sw=2, ch=2),
                      0, 0, "sync", None, None))
        tasks.append((dict(base, pattern="AAaA", observers=["regsave"], split="s2", preexisting=[1, 3]), 0, 0, "sync", None, None))
        for p in ("AaA", "AAAA"):
            tasks.append((dict(base, pattern=p, observers=["join", "regsave"], saver=True, cache=0.1, late_start=True), 0, 0, "sync", None, None))
        tasks.append((dict(base, pattern="AaA", observers=[], saver=True, cache=0.1, saver_name="stream.raw"), 0, 0, "sync", None, None))
        # somebody looks at saver.data / joiner.data while the stream is running (a progress display), wav and raw export
        for nm in ("stream.raw", "stream.wav"):
            tasks.append((dict(base, pattern="AaA", observers=["poll", "join"], saver=True, cache=0.1, saver_name=nm, peek=True), 0, 0, "sync", None, None))
        # stereo events joined with silence (two detections at least, so that there is a gap to fill)
        for sil in (0.1, 0.25):
            tasks.append((dict(base, pattern="AaaA", observers=["join"], sw=2, ch=2, silence=sil), 0, 0, "sync", None, None))
            tasks.append((dict(base, pattern="AaAaA", observers=["join"], sw=1, ch=3, silence=sil), 0, 0, "sync", None, None))
        # an output format that needs an external encoder (none can be run here): the audio is kept in the fallback wav
        tasks.append((dict(base, pattern="AaA", observers=[], saver=True, cache=0.1, saver_name="stream.ogg"), 0, 0, "sync", None, None))
        # the command line program joining detections of a wav whose rate is not the -r default
        tasks.append((dict(kind="cli", pattern="AaA", observers=[], split="s0", argv=["-O", "<WD>stream.wav", "-j", "0.2"], silence=0.2), 0, 0, "sync", None, None))
        # the command line program saving a stream in which nothing is detected (wav and raw)
        for argv in (["-O", "<WD>stream.raw"], ["-O", "<WD>stream.wav"], ["-O", "<WD>stream.raw", "-j", "0.1"]):
            tasks.append((dict(kind="cli", pattern="aaa", observers=[], split="s0", argv=argv), 0, 0, "sync", None, None))
        # a live source that hands out an empty block now and then (it is not the end of the stream)
        for c in (0.1, 1000):
            tasks.append((dict(base, pattern="AaAAaA", observers=["join"], saver=True, cache=c, ragged=[1, 1, 0, 1]), 0, 0, "sync", None, None))
        # a caller that starts everything and returns: the interpreter waits for the (non-daemon) threads, the files are complete
        tasks.append((dict(base, pattern="AaA", observers=["join", "regsave"], saver=True, cache=0.1, main_waits="tokenizer"), 0, 0, "sync", None, None))
        # a reader whose blocks differ in length mid-stream, cache sizes between the short and the long blocks
        for sizes in ([1, 3], [1, 1, 3, 1, 2], [2, 1]):
            for c in (0.15, 0.25, 0.1):
                tasks.append((dict(base, pattern="AaAaAAaA" if quick else "AaAaAAaAaa", observers=[], saver=True, cache=c, ragged=sizes),
                              0 if quick else 1, 0, "sync", None, None))
        # another audio format, another split setting
        for p in (["AaA"] if quick else ["AaA", "AAAA"]):
            for c in (0.1, 1000):
                tasks.append((dict(kind="run", pattern=p, observers=["join"], split="s1", saver=True, cache=c, sw=1, ch=2),
                              1, 0, "sync", None, None))
        for p, o, c in (("AAAA", [], 0.1), ("AAAAA", [], 0.15), ("AaAA", ["join", "regsave"], 0.1), ("AAAA", ["join"], 1000)):
            tasks.append((dict(base, pattern=p, observers=o, saver=True, cache=c), 1, 0, "race", 2 if quick else 3, None))
        tasks.append((dict(base, pattern="Aa", second="AAA", observers=[], saver=True, cache=1000), 0, 0, "race", 2, None))
        tasks.append((dict(base, pattern="Aa" * 150, observers=["join"], split="s2", saver=True, cache=0.5), 10 ** 6, 0, "directed", None, None))
        # two savers alive at once (two independent pipelines): nothing of one may reach the other's file
        for c in (0.1, 1000):
            tasks.append((dict(base, pattern="Aa", second="AAA", observers=[], saver=True, cache=c), 0, 0, "sync", None, None))
        # realistic rate: 1600-sample windows, > 64 KiB of joined audio, a cache smaller than the stream
        tasks.append((dict(kind="run", pattern="AAAAAAAAAAAAaaAAAAAAAAAAAAaaAAAAAAAAAAAAaaAAAAAAAA", observers=["join", "regsave"], split="s1",
                           saver=True, cache=0.5, sr=16000, silence=0.1), 10 ** 6, 0, "directed", None, None))
        # the same with a raw export and somebody looking at saver.data / joiner.data while the stream runs
        tasks.append((dict(kind="run", pattern="AAAAAAAAAAAAaaAAAAAAAAAAAAaaAAAAAAAAAAAAaaAAAAAAAA", observers=["poll", "join"], split="s1",
                           saver=True, saver_name="stream.raw", cache=0.5, sr=16000, silence=0.1, peek=True), 10 ** 6, 0, "directed", None, None))
        # overlapping windows under the stream saver
        for p in ("AaA", "AAAA"):
            tasks.append((dict(base, pattern=p, observers=[], saver=True, cache=0.1, sr=20, hop=0.05), 1, 0, "sync", None, None))
        tasks.append((dict(base, pattern="AAaAA", observers=["join"], saver=True, cache=0.15, sr=20, hop=0.05), 0, 0, "sync", None, None))
        tasks.append((dict(kind="stop", pattern="AaA", observers=["join"], split="s0", saver=True, cache=0.15), 0, 0, "sync", None, None))
        for p in (["AA"] if quick else ["AA", "AaA"]):
            tasks.append((dict(base, pattern=p, observers=[], saver=True, cache=0.1), 0, 0, "line", 2, None))
        tasks.append((dict(base, pattern="AAA", observers=[], saver=True, cache=0.15), 0, 0, "line", 1, None))
        tasks.append((dict(base, pattern="AA", observers=["join"], split="s2"), 0, 0, "line", 1, None))
    return tasks


TECH = ("stateless exploration of the real worker threads under a controlled scheduler: all interleavings at "
        "queue/start/join granularity (state-cached), all timeout firings up to K, plus preemption-bounded "
        "line-granularity schedules")


def run(prop, tier):
    lib()
    TASK_SECONDS[0] = 90 if tier == "quick" else 900
    rep = common.Report(prop, tier, TECH)
    tasks = plan(prop, tier)
    rep.cov["rule"] = (
        "an evaluation is one complete controlled execution of the real threads (one schedule); executions cut short "
        "because they reached an already-expanded state signature are counted as pruned, not as validated traces; "
        "every non-pruned execution is distinct (different schedule) and non-trivial (>=2 threads raced); "
        "states = distinct state signatures expanded, transitions = enabled alternatives at those states")
    rep.cov["bounds"] = {"configs": len(tasks)}
    tasks = split_line_tasks(tasks)
    # longest first so the pool drains evenly
    tasks.sort(key=lambda t: -(min(len(t[0]["pattern"]), 8) + 2 * len(t[0]["observers"]) + 3 * min(t[1], 3) + (5 if t[3] == "line" else 0)))
    while tasks:
        again = []
        for part in common.pmap(work, tasks):
            left = part.pop("leftover", None)
            rep.merge(part)
            if left:
                base, stack = left
                n = max(1, min(16, len(stack)))
                for i in range(n):
                    again.append(tuple(base) + (stack[i::n],))
        tasks = again
    rep.cov["exhaustive_scope"] = ("every sync-level and line-level configuration listed was explored to completion within its "
                                   "stated bound (timeouts K, preemption bound); the 'directed' starvation runs are single "
                                   "schedules on a long stream and are not exhaustive")
    rep.assumptions += [
        "threads interact only through the interposed Queue/start/join operations; the line-level pass (every line of "
        "workers.py a scheduling point, <=1 or 2 preemptions) is the check on that assumption",
        "a timeout may fire whenever the awaited queue is empty (over-approximates real time), at most K times per execution",
    ]
    return rep.finish()


def replay(case):
    lib()
    cfg = case["cfg"]
    make = make_factory(cfg)
    ex, ctx = sched.run_once(make, case["schedule"], case.get("timeouts", 0), case.get("interrupts", 0),
                             case.get("mode") == "line", None,
                             policy=sched.starve_policy(case["policy"]) if case.get("policy") else None,
                             line_codes=(set(tuple(c) for c in case["line_codes"]) if case.get("line_codes") else None))
    msg = check(ex, ctx)
    cleanup(ctx)
    return msg

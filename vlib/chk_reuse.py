"""C20: results never depend on an object's earlier use (GRAPH over uses + ENUM)."""

import itertools
import os

from . import common
from . import tokmodel as tm
from .chk_tok import Src, _auditok, _valid_tuple, frames_of, stream_str


def leftover_signature(tok):
    """Generic, name-agnostic snapshot of everything the tokenizer carries over."""
    out = []
    for k, v in sorted(vars(tok).items()):
        if k in ("_verif_cell", "_verif_kept") or (callable(v) and not isinstance(v, (list, tuple))):
            continue
        if isinstance(v, list):
            v = tuple(("tok", len(x[0]), x[1], x[2]) if (isinstance(x, tuple) and len(x) == 3 and isinstance(x[0], list))
                      else (x[1] if isinstance(x, tuple) and len(x) == 2 else repr(x)) for x in v)
        elif not isinstance(v, (int, float, bool, str, type(None))):
            v = repr(type(v))
        out.append((k, v))
    return tuple(out)


class Boom(Exception):
    pass


class RaisingSrc(Src):
    """A source that raises on its k-th read (an I/O error in the middle of a stream)."""

    def __init__(self, frames, k):
        super().__init__(frames)
        self._k = k

    def read(self):
        if self.i >= self._k:
            raise Boom("read %d failed" % self._k)
        return super().read()


def uses_of(n_tokens, n_frames=0):
    """First uses: complete list run, callback run, generator dropped after j items, and runs cut short
    by an exception (from the source at read k, from the callback at token j, from the validator at frame k)."""
    uses = [("list",), ("callback",)] + [("gen", j) for j in range(n_tokens + 1)] + [("gen_exhausted",)]
    # a generator that was partly consumed and is still referenced (not closed) while the tokenizer is used again
    uses += [("gen_kept", j) for j in range(n_tokens + 1)]
    uses += [("cb_raises", j) for j in range(n_tokens)]
    uses += [("src_raises", k) for k in range(n_frames + 1)]
    uses += [("val_raises", k) for k in range(n_frames)]
    return uses


def second_use(tok, how, f2):
    """The later use whose result must equal a fresh tokenizer's: a list run, or a generator that is
    consumed now (`how` == 'pre_gen': the generator object was requested before the earlier use ran)."""
    if how == "list":
        return tok.tokenize(Src(f2))
    return list(tok.tokenize(Src(f2), generator=True))


def apply_use(tok, use, frames):
    src = Src(frames)
    if use[0] == "list":
        tok.tokenize(src)
    elif use[0] == "callback":
        tok.tokenize(src, callback=lambda *a: None)
    elif use[0] == "gen":
        g = tok.tokenize(src, generator=True)
        for _ in range(use[1]):
            next(g, None)
        g.close()
    elif use[0] == "gen_exhausted":
        for _ in tok.tokenize(src, generator=True):
            pass
    elif use[0] == "gen_kept":
        g = tok.tokenize(src, generator=True)
        for _ in range(use[1]):
            next(g, None)
        tok._verif_kept = g  # stays alive (and suspended) during the later use
    elif use[0] == "cb_raises":
        seen = [0]

        def cb(*a):
            seen[0] += 1
            if seen[0] > use[1]:
                raise Boom("callback failed")

        try:
            tok.tokenize(src, callback=cb)
        except Boom:
            pass
    elif use[0] == "src_raises":
        try:
            tok.tokenize(RaisingSrc(frames, use[1]))
        except Boom:
            pass
    elif use[0] == "val_raises":
        # the tokenizer's validator is a plain callable kept by the harness: make it fail once at frame k
        cell = getattr(tok, "_verif_cell", None)
        if cell is not None:
            cell[0] = use[1]
            try:
                tok.tokenize(src)
            except Boom:
                pass
            finally:
                cell[0] = None


def make_tok(ST, params):
    """A tokenizer whose validator can be told to raise at a given frame index (cell[0])."""
    cell = [None]

    def validator(f):
        if cell[0] is not None and f[0] == cell[0]:
            raise Boom("validator failed at frame %d" % f[0])
        return f[1]

    tok = ST(validator, *params)
    tok._verif_cell = cell
    return tok


def work(task):
    tuples, L1, L2 = task
    ST = _auditok()["ST"]
    cov = {"evaluations": 0, "distinct_nontrivial": 0, "states": 0, "transitions": 0,
           "traces_validated_against_impl": 0, "first_uses_tried": 0, "samples": []}
    viol = []
    s2_all = [(n, bits) for n in range(L2 + 1) for bits in range(1 << n)]
    for params in tuples:
        mn, mx, ms, im, is_, mode = params
        fresh = {}
        for n, bits in s2_all:
            t = ST(_valid_tuple, mn, mx, ms, im, is_, mode)
            fresh[(n, bits)] = [(s, e) for _, s, e in t.tokenize(Src(frames_of(n, bits)))]
        seen = {}
        for n1 in range(L1 + 1):
            for b1 in range(1 << n1):
                f1 = frames_of(n1, b1)
                t0 = ST(_valid_tuple, mn, mx, ms, im, is_, mode)
                ntok = len(t0.tokenize(Src(f1)))
                for use in uses_of(ntok, n1):
                    cov["first_uses_tried"] += 1
                    tok = make_tok(ST, params)
                    apply_use(tok, use, f1)
                    sig = leftover_signature(tok)
                    if sig in seen:
                        continue
                    seen[sig] = (n1, b1, use)
                    # every distinct leftover state is paired with every second stream
                    for n2, b2 in s2_all:
                        tok = make_tok(ST, params)
                        f2 = frames_of(n2, b2)
                        if (n2 + b2) % 3 == 0:
                            # the second stream's generator is requested first, consumed after the other use
                            pending = tok.tokenize(Src(f2), generator=True)
                            apply_use(tok, use, f1)
                            got = list(pending)
                        else:
                            apply_use(tok, use, f1)
                            got = second_use(tok, "list" if (n2 + b2) % 3 == 1 else "gen", f2)
                        cov["evaluations"] += 1
                        cov["transitions"] += 1
                        bad = None
                        se = [(s, e) for _, s, e in got]
                        if se != fresh[(n2, b2)]:
                            bad = "reused tokenizer gives %r, a fresh one %r" % (se, fresh[(n2, b2)])
                        else:
                            for d, s, e in got:
                                if any(x is not f2[s + k] for k, x in enumerate(d)):
                                    bad = "reused tokenizer delivered frames of an earlier stream"
                        if se:
                            cov["distinct_nontrivial"] += 1
                        if bad and len(viol) < 10:
                            key = "tuple=%s first=%s use=%s second=%s" % (
                                ",".join(map(str, params)), stream_str(n1, b1), "/".join(map(str, use)), stream_str(n2, b2))
                            viol.append((key, bad, {"kind": "reuse", "params": list(params), "first": stream_str(n1, b1),
                                                    "use": list(use), "second": stream_str(n2, b2)}))
        cov["states"] += len(seen)
        if len(cov["samples"]) < 1:
            cov["samples"].append({"params": list(params), "distinct_leftover_states": len(seen),
                                   "one_first_use": [stream_str(*list(seen.values())[-1][:2]), list(list(seen.values())[-1][2])]})
    cov["traces_validated_against_impl"] = cov["evaluations"]
    return {"cov": cov, "viol": viol}


def misc(rep, tier):
    """Repeated split of the same bytes / region / rewound recorder; validator history; buffer reopen."""
    common.import_auditok()
    import auditok
    from auditok import core, util
    from auditok.io import BufferAudioSource

    from .chk_workers import pcm

    pats = ["", "A", "aAa", "AAaAA", "AaAaAaA", "aaAAAAAAaa", "AAAAAAA"]
    kws = [dict(min_dur=0.1, max_dur=0.3, max_silence=0.0), dict(min_dur=0.2, max_dur=0.4, max_silence=0.1),
           dict(min_dur=0.1, max_dur=0.3, max_silence=0.2, drop_trailing_silence=True),
           dict(min_dur=0.2, max_dur=0.3, max_silence=0.1, strict_min_dur=True)]
    for p, kw in itertools.product(pats, kws):
        data = pcm(p)
        keep = bytes(data)
        args = dict(sr=10, sw=2, ch=1, analysis_window=0.1, **kw)
        ref = [(r.data, r.start, r.end) for r in core.split(data, **args)]
        for kind in ("bytes", "region", "recorder", "recorder_hop", "recorder_mr_beyond", "recorder_mr_inside", "record_flag_mr_beyond"):
            rep.add("evaluations")
            outs = []
            ref_here = ref
            try:
                if kind == "bytes":
                    for _ in range(3):
                        outs.append([(r.data, r.start, r.end) for r in core.split(data, **args)])
                elif kind == "region":
                    reg = core.AudioRegion(data, 10, 2, 1)
                    for _ in range(3):
                        outs.append([(r.data, r.start, r.end) for r in reg.split(analysis_window=0.1, **kw)])
                    if reg.data != keep:
                        rep.violation("split mutated region %s %r" % (p, kw), "region altered by split", {"kind": "misc"})
                else:
                    # a max_read beyond the end of the audio changes nothing; one inside it means the first round(t*rate) samples
                    mr = None if "_mr_" not in kind else (len(data) / 20 + 0.35 if kind.endswith("beyond") else max(0.1, len(data) / 20 - 0.2))
                    if kind == "record_flag_mr_beyond":
                        rec = util.AudioReader(data, block_dur=0.1, sr=10, sw=2, ch=1, record=True, max_read=mr)
                    else:
                        rec = util.Recorder(data, block_dur=0.1, sr=10, sw=2, ch=1, max_read=mr)
                    if kind.endswith("inside"):
                        keep_ = keep[: 2 * round(mr * 10)]
                        ref_here = [(r.data, r.start, r.end) for r in core.split(keep_, **args)]
                    else:
                        keep_ = keep
                    for i in range(3):
                        outs.append([(r.data, r.start, r.end) for r in core.split(rec, **kw)])
                        rec.rewind()
                        if rec.data != keep_:
                            rep.violation("recorder data %s %r" % (p, kw), "recorded data differs from the input after split #%d" % (i + 1),
                                          {"kind": "misc"})
                if data != keep:
                    rep.violation("split mutated bytes %s" % p, "input altered", {"kind": "misc"})
                if any(o != ref_here for o in outs):
                    rep.violation("repeat split kind=%s pattern=%s kw=%r" % (kind, p, sorted(kw.items())),
                                  "repeated split of the same %s gives %r then %r (reference %r)" % (
                                      kind, [[(s, e) for _, s, e in o] for o in outs[:1]],
                                      [[(s, e) for _, s, e in o] for o in outs[1:]], [(s, e) for _, s, e in ref_here]),
                                  {"kind": "misc"})
                elif ref:
                    rep.add("distinct_nontrivial")
            except Exception as exc:
                rep.violation("repeat split kind=%s pattern=%s kw=%r" % (kind, p, sorted(kw.items())),
                              "raised %r" % (exc,), {"kind": "misc"})
    # a tokenizer whose validator object was re-tuned between two runs (the validator is one of its parameters): the later
    # run judges every frame by the validator as it is then, exactly as a fresh tokenizer built with that validator does.
    # Frames are small hashable values that compare equal from one run to the next (ints, one-byte strings).
    from .chk_tok import _auditok as _tok_lib

    ST_ = _tok_lib()["ST"]

    class _Level(util.DataValidator):
        threshold = 1

        def is_valid(self, frame):
            return (frame if isinstance(frame, int) else frame[0]) >= self.threshold

    class _ListSrc:
        def __init__(self, frames):
            self._f, self._i = list(frames), 0

        def read(self):
            self._i += 1
            return self._f[self._i - 1] if self._i <= len(self._f) else None

    for params in ((1, 3, 1, 0, 0, 0), (2, 4, 2, 0, 0, 0), (1, 2, 0, 0, 0, 4), (2, 3, 1, 2, 1, 2)):
        for n in range(1, 6):
            for levels in itertools.product((0, 1, 2), repeat=n):
                for as_bytes in (False, True):
                    frames = [bytes([x]) for x in levels] if as_bytes else list(levels)
                    for t1, t2 in ((1, 2), (2, 1)):
                        rep.add("evaluations")
                        v = _Level()
                        tok = ST_(v, *params)
                        v.threshold = t1
                        tok.tokenize(_ListSrc(frames))
                        v.threshold = t2
                        got = [(se[1], se[2]) for se in tok.tokenize(_ListSrc(frames))]
                        fresh = [(se[1], se[2]) for se in ST_(v, *params).tokenize(_ListSrc(frames))]
                        if fresh:
                            rep.add("distinct_nontrivial")
                        if got != fresh:
                            rep.violation("retuned validator params=%r levels=%r bytes=%s thresholds=%d,%d" % (params, levels, as_bytes, t1, t2),
                                          "tokenizer %r reused on levels %r after its validator's threshold went from %d to %d gives %r, "
                                          "a fresh tokenizer with the same validator %r" % (params, levels, t1, t2, got, fresh), {"kind": "misc"})
                            break
    # one region object split several times with *different* settings, through split() and split_and_plot() (drawing
    # stubbed out): every call gives what a freshly built region gives for the same settings
    core.plot = lambda *a, **k: None
    for p in ("AaA", "aAAaAAAa", "LRaA"):
        data = pcm(p)
        variants = [dict(energy_threshold=50), dict(energy_threshold=120), dict(eth=50), dict(energy_threshold=50, analysis_window=0.2),
                    dict(energy_threshold=50), dict(validator=util.AudioEnergyValidator(120, 2, 1)), dict(validator=util.AudioEnergyValidator(50, 2, 1))]
        for method in ("split", "split_and_plot"):
            for base in (dict(min_dur=0.1, max_dur=0.3, max_silence=0.1), dict(min_dur=0.2, max_dur=0.4, max_silence=0.0)):
                reg = core.AudioRegion(data, 10, 2, 1)
                for i, extra in enumerate(variants):
                    rep.add("evaluations")
                    kw = dict(base, **extra)
                    if "analysis_window" not in kw:
                        kw["analysis_window"] = 0.1
                    try:
                        if method == "split":
                            got = [(r.data, r.start) for r in reg.split(**kw)]
                            ref = [(r.data, r.start) for r in core.AudioRegion(data, 10, 2, 1).split(**kw)]
                        else:
                            got = [(r.data, r.start) for r in reg.split_and_plot(show=False, **kw)]
                            ref = [(r.data, r.start) for r in core.AudioRegion(data, 10, 2, 1).split_and_plot(show=False, **kw)]
                        msg = None if got == ref else "call #%d on the same region (%s) gives starts %r, a fresh region %r" % (
                            i + 1, sorted(extra), [x[1] for x in got], [x[1] for x in ref])
                        if ref:
                            rep.add("distinct_nontrivial")
                    except Exception as exc:
                        msg = "raised %r" % (exc,)
                    if msg:
                        rep.violation("region re-split method=%s pattern=%s call=%d" % (method, p, i + 1),
                                      "%s with other settings than before: %s" % (method, msg), {"kind": "misc"})
                        break
    # a lazily read file source (raw / wav, large_file=True) split to its end, closed and split again: the same regions
    import wave as _wave

    d_ = common.scratch_dir()
    for p in ("AaA", "aAAaAAAa"):
        data = pcm(p)
        rawp, wavp = os.path.join(d_, "reuse_%d.raw" % os.getpid()), os.path.join(d_, "reuse_%d.wav" % os.getpid())
        with open(rawp, "wb") as fp:
            fp.write(data)
        with _wave.open(wavp, "wb") as fp:
            fp.setframerate(10)
            fp.setsampwidth(2)
            fp.setnchannels(1)
            fp.writeframes(data)
        kw = dict(min_dur=0.1, max_dur=0.3, max_silence=0.1, analysis_window=0.1)
        ref = [(r.data, r.start) for r in core.split(data, sr=10, sw=2, ch=1, **kw)]
        for kind in ("raw_source", "wav_source", "raw_reader", "wav_reader"):
            for first in ("whole", "one_region", "reads"):
                rep.add("evaluations")
                try:
                    if kind == "raw_source":
                        obj = auditok.io.RawAudioSource(rawp, 10, 2, 1)
                    elif kind == "wav_source":
                        obj = auditok.io.WaveAudioSource(wavp)
                    elif kind == "raw_reader":
                        obj = util.AudioReader(rawp, block_dur=0.1, sr=10, sw=2, ch=1, large_file=True)
                    else:
                        obj = util.AudioReader(wavp, block_dur=0.1, large_file=True)
                    kw_ = {k: v for k, v in kw.items() if not (kind.endswith("reader") and k == "analysis_window")}
                    outs = []
                    for i in range(3):
                        if i == 0 and first == "one_region":
                            g = core.split(obj, **kw_)
                            next(g, None)
                            g.close()
                        elif i == 0 and first == "reads":
                            obj.open()
                            while obj.read(*(() if kind.endswith("reader") else (3,))) is not None:
                                pass
                        else:
                            outs.append([(r.data, r.start) for r in core.split(obj, **kw_)])
                        obj.close()
                    if any(o != ref for o in outs):
                        rep.violation("file source reuse kind=%s first=%s pattern=%s" % (kind, first, p),
                                      "%s split again after it was used (%s) and closed gives starts %r, the audio holds %r" % (
                                          kind, first, [[x[1] for x in o] for o in outs], [x[1] for x in ref]), {"kind": "misc"})
                    elif ref:
                        rep.add("distinct_nontrivial")
                except Exception as exc:
                    rep.violation("file source reuse kind=%s first=%s pattern=%s" % (kind, first, p), "raised %r" % (exc,), {"kind": "misc"})
        os.unlink(rawp)
        os.unlink(wavp)
    # a recorder (with and without overlapping windows) whose first pass was abandoned after j regions:
    # every later split of the rewound recorder gives what a fresh reader over the recorded audio gives
    kws_hop = [dict(min_dur=0.2, max_dur=0.6, max_silence=0.0), dict(min_dur=0.2, max_dur=0.8, max_silence=0.2),
               dict(min_dur=0.4, max_dur=1.0, max_silence=0.2, drop_trailing_silence=True)]  # in 0.2 s blocks
    for p, ki in itertools.product(["aAAaAAAa", "AAAAAAAA", "aaAaaAAAaA"], range(3)):
        data = pcm(p)
        for hop in (None, 0.1):
            kw = kws[ki] if hop is None else kws_hop[ki]
            for j in range(0, 3):
                rep.add("evaluations")
                try:
                    bd = 0.1 if hop is None else 0.2
                    rec = util.Recorder(data, block_dur=bd, hop_dur=hop, sr=10, sw=2, ch=1)
                    g = core.split(rec, **kw)
                    for _ in range(j):
                        next(g, None)
                    g.close()
                    outs = []
                    for _ in range(2):
                        rec.rewind()
                        outs.append([(r.data, r.start, r.end) for r in core.split(rec, **kw)])
                    rec.rewind()
                    fresh = util.AudioReader(rec.data, block_dur=bd, hop_dur=hop, sr=10, sw=2, ch=1)
                    ref2 = [(r.data, r.start, r.end) for r in core.split(fresh, **kw)]
                    if outs[0] != ref2 or outs[1] != ref2:
                        rep.violation("abandoned recorder pattern=%s hop=%r j=%d kw=%r" % (p, hop, j, sorted(kw.items())),
                                      "after abandoning the first pass at region %d the rewound recorder gives %r then %r, a fresh reader over "
                                      "the recorded audio gives %r" % (j, [(s_, e_) for _, s_, e_ in outs[0]],
                                                                        [(s_, e_) for _, s_, e_ in outs[1]], [(s_, e_) for _, s_, e_ in ref2]),
                                      {"kind": "misc"})
                except Exception as exc:
                    rep.violation("abandoned recorder pattern=%s hop=%r j=%d kw=%r" % (p, hop, j, sorted(kw.items())),
                                  "raised %r" % (exc,), {"kind": "misc"})
    # validators: verdict for a window does not depend on what was judged before
    wins = [b"\x00\x00\x00\x00", b"\x10\x27\x10\x27", b"\xff\x7f\x00\x80", b"\x01\x00\xff\xff", b"\xe8\x03\x18\xfc", b"\x0a\x00\xf6\xff",
            # other lengths: a long loud window, a long silent one, a long faint one
            b"\xff\x7f" * 12, b"\x00\x00" * 12, b"\x03\x00\xfd\xff" * 4, b"\x10\x27" * 6 + b"\x00\x00" * 6]
    for thr in (0, 20, 60, 80):
        for ch, uc in ((1, None), (2, None), (2, "mix"), (2, 1)):
            freshv = {w: bool(util.AudioEnergyValidator(thr, 2, ch, uc).is_valid(w)) for w in wins}
            for trip in itertools.product(wins, repeat=3):
                rep.add("evaluations")
                v = util.AudioEnergyValidator(thr, 2, ch, uc)
                got = [bool(v.is_valid(w)) for w in trip]
                if got != [freshv[w] for w in trip]:
                    rep.violation("validator thr=%r ch=%d uc=%r windows=%r" % (thr, ch, uc, [w.hex() for w in trip]),
                                  "verdicts %r depend on history (fresh: %r)" % (got, [freshv[w] for w in trip]), {"kind": "misc"})
    # somebody else converted the same bytes to an array and edited that array: verdicts are unaffected
    import numpy as np
    from auditok import signal as _sig

    ST_ = _auditok()["ST"]

    for ch in (1, 2):
        for loud, nrep in ((True, 4), (False, 4), (True, 40000), (False, 40000)):  # a few samples, and more than 64 KiB
            w = ((b"\x10\x27" if loud else b"\x01\x00") * ch) * nrep
            for how in ("region.numpy", "to_array", "asarray"):
                rep.add("evaluations")
                want = bool(util.AudioEnergyValidator(50, 2, ch).is_valid(bytes(w)))
                reg = core.AudioRegion(bytes(w), 10, 2, ch)
                arr = reg.numpy() if how == "region.numpy" else (_sig.to_array(bytes(w), 2, ch) if how == "to_array" else np.asarray(reg))
                try:
                    arr *= 0 if loud else 30000
                    arr += 0 if loud else 30000
                except Exception:
                    pass
                got = bool(util.AudioEnergyValidator(50, 2, ch).is_valid(bytes(w)))
                if got == want and how != "to_array":
                    # ... and a second export of that very region object shows the region's samples, not the edited array
                    again = reg.numpy()
                    clean = _sig.to_array(bytes(w), 2, ch)
                    if again.shape != clean.shape or not (again == clean).all():
                        got = "a later export of the same region object returns the edited values"
                if got != want:
                    rep.violation("verdict after array edit how=%s ch=%d loud=%s n=%d" % (how, ch, loud, nrep),
                                  "after an array made from equal bytes (%s) was edited in place, the window is judged %r, before %r" % (how, got, want),
                                  {"kind": "misc"})
    # the energy function itself, given the caller's own array / list more than once: same value, operand untouched
    for mk in (lambda: np.array([[3.0, -4.0, 100.0, 7.0]]), lambda: np.array([3.0, -4.0, 100.0, 7.0]),
               lambda: np.array([[3, -4, 100, 7], [1, 1, 1, 1]], dtype=np.int16), lambda: np.array([[0.5, 0.25], [8.0, -8.0]], dtype=np.float64),
               lambda: np.array([1000.0, -1000.0], dtype=np.float32), lambda: [[3.0, -4.0, 100.0, 7.0]]):
        for agg in (None, max):
            w = mk()
            if agg is not None and np.asarray(w).ndim < 2:
                continue  # an aggregation function applies to per-channel energies only
            rep.add("evaluations")
            before = np.array(w, copy=True)
            try:
                vals = [np.asarray(_sig.calculate_energy(w, agg)).tolist() for _ in range(3)]
                same = vals[0] == vals[1] == vals[2] and np.array_equal(np.asarray(w), before)
                msg = None if same else "three evaluations of the same window give %r; the window is now %r (was %r)" % (vals, np.asarray(w).tolist(), before.tolist())
            except Exception as exc:
                msg = "raised %r" % (exc,)
            if msg:
                rep.violation("calculate_energy repeated dtype=%s agg=%s" % (getattr(before, "dtype", None), getattr(agg, "__name__", None)), msg, {"kind": "misc"})
    # a string data source given another string with set_data(): the reused tokenizer AND the reused source behave as new ones
    from auditok.util import StringDataSource

    UP = _auditok()["Upper"]
    strings = ["", "A", "aA", "AAa", "aAAaA", "AAAAAAA", "aAaAaAaAa"]
    for params in [(1, 3, 1, 0, 0, 0), (2, 4, 0, 0, 0, 4)]:
        for s1, s2 in itertools.product(strings, repeat=2):
            rep.add("evaluations")
            try:
                tok = ST_(UP(), *params)
                src = StringDataSource(s1)
                tok.tokenize(src)
                src.set_data(s2)
                got = tok.tokenize(src)
                fresh = ST_(UP(), *params).tokenize(StringDataSource(s2))
                msg = None if got == fresh else "gives %r, a fresh source and tokenizer %r" % (got, fresh)
            except Exception as exc:
                msg = "raised %r" % (exc,)
            if msg:
                rep.violation("string source reused %r -> %r tuple=%s" % (s1, s2, params), "source first holding %r then given %r with set_data(): %s" % (s1, s2, msg),
                              {"kind": "misc"})
    # deep histories: a verdict repeated after hundreds / thousands of other distinct windows
    for nbetween in (130, 300, 520, 700, 1100, 2100):
        for thr, ch in ((50, 1), (50, 2)):
            loud = (b"\x10\x27" * ch) * 4
            faint = (b"\x02\x00" * ch) * 4
            for first, fillers_loud in ((loud, False), (faint, True)):
                rep.add("evaluations")
                v = util.AudioEnergyValidator(thr, 2, ch)
                want = bool(util.AudioEnergyValidator(thr, 2, ch).is_valid(first))
                v.is_valid(first)
                for k in range(nbetween):
                    base = 9000 + k if fillers_loud else (k % 7)
                    w = (int(base).to_bytes(2, "little", signed=True) * ch) * 3 + (int(k).to_bytes(2, "little") * ch)
                    v.is_valid(w)
                got = bool(v.is_valid(first))
                if got != want:
                    rep.violation("validator deep history n=%d thr=%r ch=%d first=%s" % (nbetween, thr, ch, "loud" if first is loud else "faint"),
                                  "the same window is judged %r after %d other distinct windows, %r by a fresh validator" % (got, nbetween, want),
                                  {"kind": "misc"})
    # two live splits of the SAME region object, consumed in every interleaving
    from .chk_split import merges

    for p, kw in itertools.product(["AaA", "AAAA", "aAAaA"], kws[:2]):
        reg = core.AudioRegion(pcm(p), 10, 2, 1)
        solo = [(r.start, r.data) for r in reg.split(analysis_window=0.1, **kw)]
        for order in merges(len(solo) + 1, len(solo) + 1):
            rep.add("evaluations")
            gens = [reg.split(analysis_window=0.1, **kw), core.split(reg, analysis_window=0.1, **kw)]
            got = [[], []]
            for g in order:
                r = next(gens[g], None)
                if r is not None:
                    got[g].append((r.start, r.data))
            if got[0] != solo or got[1] != solo:
                rep.violation("same-region interleaved pattern=%s kw=%r order=%s" % (p, sorted(kw.items()), "".join(map(str, order))),
                              "two live splits of one region object give starts %r / %r, a single split %r" % (
                                  [x[0] for x in got[0]], [x[0] for x in got[1]], [x[0] for x in solo]), {"kind": "misc"})
                break
    # an abandoned generator may be finalised (closed / garbage-collected) at ANY later moment: close it after
    # every number of items of a second generator run on the same tokenizer
    ST = _auditok()["ST"]
    for params in [(1, 3, 1, 0, 0, 0), (2, 4, 2, 0, 0, 4), (1, 2, 0, 0, 0, 0), (2, 3, 1, 2, 1, 0)]:
        for s1, s2 in itertools.product(["AAAAAaA", "AaAAAAAA", "aAA"], ["aAAAAAAAaA", "AAaAAAAaAAA", "A"]):
            f1 = [(i, c == "A") for i, c in enumerate(s1)]
            f2 = [(i, c == "A") for i, c in enumerate(s2)]
            fresh = [(a, b) for _, a, b in ST(_valid_tuple, *params).tokenize(Src(f2))]
            n1 = len(ST(_valid_tuple, *params).tokenize(Src(f1)))
            for j in range(n1 + 1):
                for k in range(len(fresh) + 2):
                    rep.add("evaluations")
                    tok = ST(_valid_tuple, *params)
                    g1 = tok.tokenize(Src(f1), generator=True)
                    for _ in range(j):
                        next(g1, None)
                    g2 = tok.tokenize(Src(f2), generator=True)
                    got = []
                    for _ in range(k):
                        t = next(g2, None)
                        if t is not None:
                            got.append((t[1], t[2]))
                    g1.close()
                    del g1
                    for t in g2:
                        got.append((t[1], t[2]))
                    if got != fresh:
                        rep.violation("abandoned generator finalised tuple=%s first=%s j=%d second=%s k=%d" % (
                            ",".join(map(str, params)), s1, j, s2, k),
                            "first generator dropped after %d items and finalised after %d items of the second run: second run gives %r, a fresh "
                            "tokenizer %r" % (j, k, got, fresh), {"kind": "misc"})
    # ... including from INSIDE the second run: the old generator is closed while the tokenizer waits for its k-th frame
    class FinalisingSrc(Src):
        __slots__ = ("victim", "at")

        def read(self):
            if self.victim is not None and self.i == self.at:
                v, self.victim = self.victim, None
                v.close()
            return Src.read(self)

    for params in [(1, 3, 1, 0, 0, 0), (2, 4, 2, 0, 0, 4), (2, 8, 2, 0, 0, 0), (2, 3, 1, 2, 1, 0)]:
        for s1, s2 in itertools.product(["AAAAAaA", "aAA"], ["AAAaAAaa", "aAAAAAAAaA", "AAaAAAAaAAA"]):
            f1 = [(i, c == "A") for i, c in enumerate(s1)]
            f2 = [(i, c == "A") for i, c in enumerate(s2)]
            fresh = [(a, b) for _, a, b in ST(_valid_tuple, *params).tokenize(Src(f2))]
            n1 = len(ST(_valid_tuple, *params).tokenize(Src(f1)))
            for j in range(n1 + 1):
                for k in range(len(f2) + 2):
                    for mode in ("list", "generator"):
                        rep.add("evaluations")
                        tok = ST(_valid_tuple, *params)
                        g1 = tok.tokenize(Src(f1), generator=True)
                        for _ in range(j):
                            next(g1, None)
                        src2 = FinalisingSrc(f2)
                        src2.victim, src2.at = g1, k
                        del g1
                        out = tok.tokenize(src2) if mode == "list" else list(tok.tokenize(src2, generator=True))
                        got = [(t[1], t[2]) for t in out]
                        if got != fresh:
                            rep.violation("abandoned generator finalised inside run tuple=%s first=%s j=%d second=%s at_read=%d %s" % (
                                ",".join(map(str, params)), s1, j, s2, k, mode),
                                "first generator dropped after %d items and finalised while the second run (%s mode) waited for frame %d: second run "
                                "gives %r, a fresh tokenizer %r" % (j, mode, k, got, fresh), {"kind": "misc"})
    # a split of a recorder abandoned after j regions and finalised only later, while a new split of the rewound recorder runs
    for p, ki in itertools.product(["aAAaAAAaAa", "AAAAAAAAaa"], range(2)):
        data = pcm(p)
        kw = kws[ki]
        ref_all = None
        for j in range(0, 3):
            for k in range(0, 5):
                rep.add("evaluations")
                try:
                    rec = util.Recorder(data, block_dur=0.1, sr=10, sw=2, ch=1)
                    old = core.split(rec, **kw)
                    for _ in range(j):
                        next(old, None)
                    rec.rewind()
                    want = [(r.data, r.start) for r in core.split(util.AudioReader(rec.data, block_dur=0.1, sr=10, sw=2, ch=1), **kw)]
                    rec.rewind()
                    new = core.split(rec, **kw)
                    got = []
                    i = 0
                    while True:
                        if i == k:
                            old.close()
                        r = next(new, None)
                        i += 1
                        if r is None:
                            break
                        got.append((r.data, r.start))
                    if i <= k:
                        old.close()
                    msg = None if got == want else "gives starts %r, a fresh reader over the recorded audio %r" % ([x[1] for x in got], [x[1] for x in want])
                except Exception as exc:
                    msg = "raised %r" % (exc,)
                if msg:
                    rep.violation("recorder split abandoned pattern=%s kw=%d j=%d closed_at=%d" % (p, ki, j, k),
                                  "first split of a recorder left at %d regions and closed when the second split (after rewind) had yielded %d: second split %s" % (
                                      j, k, msg), {"kind": "misc"})
    # a region split that was left unfinished must not shorten later splits of the same region object
    for p, kw in itertools.product(["AaAaA", "AAAAaAA", "aAAaAa"], kws[:3]):
        reg = core.AudioRegion(pcm(p), 10, 2, 1)
        ref = [(r.start, r.data) for r in core.AudioRegion(pcm(p), 10, 2, 1).split(analysis_window=0.1, **kw)]
        for j in range(len(ref) + 1):
            rep.add("evaluations")
            g = reg.split(analysis_window=0.1, **kw)
            for _ in range(j):
                next(g, None)
            again = [(r.start, r.data) for r in reg.split(analysis_window=0.1, **kw)]
            third = [(r.start, r.data) for r in core.split(reg, analysis_window=0.1, **kw)]
            if again != ref or third != ref:
                rep.violation("region split unfinished pattern=%s j=%d kw=%r" % (p, j, sorted(kw.items())),
                              "after a split of the same region was left at %d regions, a new split gives starts %r (reference %r)" % (
                                  j, [x[0] for x in again], [x[0] for x in ref]), {"kind": "misc"})
    # buffer source: close and reopen restarts at the beginning
    data = pcm("AaAaA")
    for k in range(0, 7):
        for m in range(0, 4):
            rep.add("evaluations")
            src = BufferAudioSource(data, 10, 2, 1)
            src.open()
            for _ in range(k):
                src.read(1)
            src.close()
            src.open()
            for _ in range(m):
                src.read(2)
            src.close()
            src.open()
            got = src.read(-1)
            if got != data or src.position != 5:
                rep.violation("buffer reopen k=%d m=%d" % (k, m), "after close/open read(-1) gives %r" % (got,), {"kind": "misc"})


def run(prop, tier):
    _auditok()
    rep = common.Report(prop, tier, "explicit-state search over tokenizer uses: every first use (list / callback / generator "
                        "dropped after j items) on every stream <=L1, deduplicated by the tokenizer's leftover state, each "
                        "distinct leftover state paired with every second stream <=L2 and compared with a fresh tokenizer")
    quick = tier == "quick"
    M, L1, L2 = (3, 8, 6) if quick else (4, 10, 8)
    tuples = tm.grid(M)
    if quick:
        g4 = [t for t in tm.grid(4) if t[1] == 4]
        tuples += [t for i, t in enumerate(g4) if i % 16 == common.seed() % 16]
    misc(rep, tier)
    tasks = [(tuples[i::64], L1, L2) for i in range(64) if tuples[i::64]]
    for part in common.pmap(work, tasks):
        rep.merge(part)
    rep.cov["rule"] = ("one evaluation = one second use of a tokenizer whose first use left a distinct leftover state, compared "
                       "with a fresh tokenizer; non-trivial when the second stream yields tokens; states = distinct leftover "
                       "states (per tuple), transitions = (leftover state, second stream) pairs")
    rep.cov["bounds"] = {"tuples": len(tuples), "first_stream_len": L1, "second_stream_len": L2}
    return rep.finish()


def replay(case):
    if case["kind"] == "misc":
        rep = common.Report("C20", "quick", "")
        misc(rep, "quick")
        return rep.violations[0][1] if rep.violations else None
    ST = _auditok()["ST"]
    params = tuple(case["params"])
    f1 = tm.parse(case["first"])
    f2 = tm.parse(case["second"])
    n1, b1 = len(f1), sum(1 << i for i, v in enumerate(f1) if v)
    n2, b2 = len(f2), sum(1 << i for i, v in enumerate(f2) if v)
    tok = make_tok(ST, params)
    apply_use(tok, tuple(case["use"]), frames_of(n1, b1))
    got = [(s, e) for _, s, e in tok.tokenize(Src(frames_of(n2, b2)))]
    fresh = [(s, e) for _, s, e in ST(_valid_tuple, *params).tokenize(Src(frames_of(n2, b2)))]
    return None if got == fresh else "reused tokenizer gives %r, a fresh one %r" % (got, fresh)

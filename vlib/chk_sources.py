"""C11: audio sources hand out successive whole-sample chunks, then None (GRAPH)."""

import io
import os
import sys
import wave

from . import common, graph

SR = 8  # dyadic rate: k/8 s and 125*k ms are exact sample instants

FORMATS = [(1, 1), (2, 2), (4, 3)]  # (sample_width, channels)


def content(n, sw, ch):
    """n samples whose bytes identify their position."""
    out = bytearray()
    for i in range(n):
        for c in range(ch):
            v = (4 * i + c + 1) % 127 if sw == 1 else 16 * (i + 1) + c + 1
            out += int(v).to_bytes(sw, "little", signed=True)
    return bytes(out)


_L = {}


def lib():
    if not _L:
        common.import_auditok()
        from auditok import io as aio
        from auditok.exceptions import AudioIOError

        _L.update(io=aio, AudioIOError=AudioIOError)
    return _L


class ChunkRaw(io.RawIOBase):
    """A raw stream that answers every read with at most the next chunk size (cycled): the
    environment's short reads, e.g. a pipe whose writer trickles."""

    def __init__(self, data, chunks):
        self._d = data
        self._p = 0
        self._c = list(chunks)
        self._k = 0

    def readable(self):
        return True

    def readinto(self, b):
        if self._p >= len(self._d):
            return 0
        n = min(len(b), self._c[self._k % len(self._c)], len(self._d) - self._p)
        self._k += 1
        b[:n] = self._d[self._p : self._p + n]
        self._p += n
        return n


class FakeStdin:
    """sys.stdin stand-in.  chunks=None: everything available at once (BytesIO);
    chunks=[...]: a real io.BufferedReader over a raw stream with short reads."""

    def __init__(self, data, chunks=None):
        if chunks:
            self.buffer = io.BufferedReader(ChunkRaw(data, chunks))
        else:
            self.buffer = io.BytesIO(data)


def mono_view_class():
    """A user-written adapter as users write them: the first channel of a multi-channel source.  It hands the inner
    source's parameters to AudioSource.__init__ and overrides the public `channels` property (and read / position
    plumbing); everything it reports through the public interface is consistent."""
    from auditok.io import AudioSource

    class MonoView(AudioSource):
        def __init__(self, inner):
            super().__init__(inner.sampling_rate, inner.sample_width, inner.channels)
            self._inner = inner

        @property
        def channels(self):
            return 1

        def open(self):
            self._inner.open()

        def close(self):
            self._inner.close()

        def is_open(self):
            return self._inner.is_open()

        def read(self, size):
            b = self._inner.read(size)
            if b is None:
                return None
            w, n = self._inner.sample_width, self._inner.channels
            return b"".join(b[i : i + w] for i in range(0, len(b), w * n))

    return MonoView


def interleave_with_noise(mono, sw):
    """Stereo bytes whose first channel is `mono` and whose second channel is something else (loud everywhere)."""
    out = bytearray()
    for i in range(0, len(mono), sw):
        out += mono[i : i + sw]
        out += int(97 + (i // sw) % 23).to_bytes(sw, "little", signed=True)
    return bytes(out)


class PipeStdin:
    """sys.stdin stand-in backed by a real pipe (it has a file descriptor, as the real one does): a feeder thread
    writes one chunk, waits until the reader has drained the pipe, writes the next, ... and closes.  Every read on
    the descriptor therefore returns at most the rest of one chunk - the environment's short reads, deterministically."""

    def __init__(self, data, chunks):
        import array
        import fcntl
        import termios
        import threading
        import time

        r, w = os.pipe()
        self._r = r
        self.buffer = open(r, "rb")
        chunks = [min(4096, max(1, c)) for c in chunks]

        def feed():
            pos = k = 0
            avail = array.array("i", [0])
            try:
                while pos < len(data):
                    n = chunks[k % len(chunks)]
                    k += 1
                    os.write(w, data[pos : pos + n])
                    pos += n
                    deadline = time.time() + 1.0
                    while time.time() < deadline:
                        fcntl.ioctl(r, termios.FIONREAD, avail)
                        if avail[0] == 0:
                            break
                        time.sleep(0.00005)
            except OSError:
                pass
            finally:
                try:
                    os.close(w)
                except OSError:
                    pass

        threading.Thread(target=feed, daemon=True).start()

    def fileno(self):
        return self._r

    def close(self):
        try:
            self.buffer.close()
        except OSError:
            pass


def compositions(total, cap=64):
    """All ways to cut `total` bytes into chunks (first `cap` of them, shortest chunks first)."""
    out = []

    def rec(rest, acc):
        if len(out) >= cap:
            return
        if rest == 0:
            out.append(tuple(acc))
            return
        for k in range(1, rest + 1):
            rec(rest - k, acc + [k])

    rec(total, [])
    return out


def content_big(n, sw, ch):
    out = bytearray()
    top = 2 ** (8 * sw - 1) - 1
    for i in range(n):
        for c in range(ch):
            out += int((i * 7 + c * 3 + 1) % top).to_bytes(sw, "little", signed=True)
    return bytes(out)


def _fifo_with_writer(data):
    """A named pipe with a writer that delivers `data` and closes: what a process substitution or /dev/stdin path is."""
    import threading

    _fifo_with_writer.n = getattr(_fifo_with_writer, "n", 0) + 1
    path = os.path.join(common.scratch_dir(), "fifo_%d_%d.raw" % (os.getpid(), _fifo_with_writer.n))
    os.mkfifo(path)

    def feed():
        try:
            with open(path, "wb") as fp:
                fp.write(data)
        except OSError:
            pass

    threading.Thread(target=feed, daemon=True).start()
    return path


class SourceSys:
    """A real source next to the (open flag, cursor) reference model."""

    big_menu = None

    def __init__(self, kind, data, sw, ch, path):
        L = lib()
        aio = L["io"]
        self.kind = kind
        self.bps = sw * ch
        self.samples = [data[i : i + self.bps] for i in range(0, len(data), self.bps)]
        self.n = len(self.samples)
        self.open = False
        self.cur = 0
        self.siblings = []
        sib = kind.endswith("+sib")
        if sib:
            self.kind = kind = kind[: -len("+sib")]
            self.siblings.append(self._sibling(aio, sw, ch))  # one that exists before ...
        if kind in ("wavx", "wavx_eager"):
            kind = "wav" if kind == "wavx" else "wav_eager"  # same model; only the file on disk differs
            self.kind = kind
        if kind in ("wav_eager", "raw_eager", "fifo_eager"):
            # the in-memory loaders (large_file=False): whatever they return is modelled as a memory buffer
            if kind == "fifo_eager":
                path = _fifo_with_writer(data)
            if kind == "wav_eager":
                self.real = aio.from_file(path)
            else:
                self.real = aio.from_file(path, audio_format="raw", sampling_rate=SR, sample_width=sw, channels=ch)
            if kind == "fifo_eager":
                os.unlink(path)
            self.kind = kind = "buffer"
        elif kind == "buffer":
            self.real = aio.BufferAudioSource(data, SR, sw, ch)
        elif kind == "raw":
            self.real = aio.RawAudioSource(path, SR, sw, ch)
        elif kind == "wav":
            self.real = aio.WaveAudioSource(path)
        elif kind.startswith("stdin"):
            old = sys.stdin
            chunks = [int(x) for x in kind.split(":")[1].split(",")] if ":" in kind else None
            if kind.startswith("stdin_fd"):
                self.pipe = sys.stdin = PipeStdin(data, chunks or [len(data) or 1])
            else:
                sys.stdin = FakeStdin(data, chunks)
            self.kind = kind = "stdin"
            try:
                self.real = aio.StdinAudioSource(SR, sw, ch)
            finally:
                sys.stdin = old
        else:
            raise ValueError(kind)
        if sib:
            self.siblings.append(self._sibling(aio, sw, ch))  # ... and one constructed (and used) afterwards

    @staticmethod
    def _sibling(aio, sw, ch):
        """Another live source with different parameters and its own cursor: nothing it does concerns the one under test."""
        sw2 = 4 if sw != 4 else 2
        ch2 = ch + 1
        other = aio.BufferAudioSource(bytes(range(1, 1 + sw2 * ch2 * 5)), 3 * SR, sw2, ch2)
        other.open()
        other.read(2)
        return other

    # -- alphabet
    def ops(self):
        n = self.n
        if self.big_menu:
            ops = [("read", k) for k in self.big_menu] + [("open",), ("close",)]
            if self.kind == "buffer":
                ops += [("set_pos", 4097), ("set_pos", -4097), ("get_pos",)]
            return ops
        sizes = [1, 2, 3, max(n, 1), n + 1]
        ops = [("read", s) for s in sorted(set(sizes))]
        ops += [("read_np", 1), ("read_np", 2)]  # the same sizes given as numpy integers
        if self.kind != "stdin":
            ops += [("read", None), ("read", -1)]
        ops += [("open",), ("close",), ("is_open",)]
        # read(0): on a closed source an I/O error; on an open one it hands out no audio (None or an empty object - the
        # statement leaves that open) and consumes none
        ops += [("read", 0)]
        if self.kind == "buffer":
            ops += [("rewind",), ("get_pos",), ("get_pos_s",), ("get_pos_ms",)]
            for p in range(-n - 1, n + 2):
                ops.append(("set_pos", p))
                ops.append(("set_pos_s", p / SR))
                ops.append(("set_pos_ms", p * 1000 // SR))
        return ops

    def ops_small(self):
        """Representative menu used for the deeper levels of merge validation."""
        n = self.n
        ops = [("read", 1), ("read", n + 1), ("open",), ("close",)]
        if self.kind != "stdin":
            ops.append(("read", None))
        if self.kind == "buffer":
            ops += [("set_pos", 0), ("set_pos", -1), ("set_pos", n), ("set_pos_ms", 0), ("rewind",), ("get_pos",)]
        return ops

    def step(self, op):
        return self._real(op), self._model(op)

    def _real(self, op):
        r = self.real
        Err = lib()["AudioIOError"]
        try:
            k = op[0]
            if k in ("read", "read_np"):
                size = op[1]
                if k == "read_np":
                    import numpy as np

                    size = np.int64(size)
                out = r.read(size)
                if size == 0 and (out is None or len(out) == 0):
                    return ("nothing",)
                if out is None:
                    return ("none",)
                if not isinstance(out, (bytes, bytearray)):
                    return ("weird", repr(out))
                return ("data", bytes(out))
            if k == "open":
                r.open()
                return ("ok",)
            if k == "close":
                r.close()
                return ("ok",)
            if k == "is_open":
                return ("val", bool(r.is_open()))
            if k == "rewind":
                r.rewind()
                return ("ok",)
            if k == "get_pos":
                return ("val", r.position)
            if k == "get_pos_s":
                return ("val", r.position_s)
            if k == "get_pos_ms":
                return ("val", r.position_ms)
            if k == "set_pos":
                r.position = op[1]
                return ("ok",)
            if k == "set_pos_s":
                r.position_s = op[1]
                return ("ok",)
            if k == "set_pos_ms":
                r.position_ms = op[1]
                return ("ok",)
        except IndexError:
            return ("raise", "IndexError")
        except (Err, OSError):
            return ("raise", "io-error")
        except Exception as exc:
            return ("raise", type(exc).__name__ + ": " + str(exc)[:60])
        raise ValueError(op)

    def _model(self, op):
        k = op[0]
        n = self.n
        if k in ("read", "read_np"):
            if not self.open:
                return ("raise", "io-error")
            rem = n - self.cur
            if op[1] == 0:
                return ("nothing",)
            if rem == 0:
                return ("none",)
            size = op[1]
            cnt = rem if (size is None or size < 0) else min(size, rem)
            out = b"".join(self.samples[self.cur : self.cur + cnt])
            self.cur += cnt
            return ("data", out)
        if k == "open":
            if not self.open and self.kind in ("raw", "wav"):
                self.cur = 0  # a file source reopens its file
            self.open = True
            return ("ok",)
        if k == "close":
            self.open = False
            if self.kind == "buffer":
                self.cur = 0
            return ("ok",)
        if k == "is_open":
            return ("val", self.open)
        if k == "rewind":
            self.cur = 0
            return ("ok",)
        if k == "get_pos":
            return ("val", self.cur)
        if k == "get_pos_s":
            return ("val", self.cur / SR)
        if k == "get_pos_ms":
            return ("val", self.cur * 1000 // SR)
        if k in ("set_pos", "set_pos_s", "set_pos_ms"):
            p = op[1]
            if k == "set_pos_s":
                p = int(round(p * SR))  # exact sample instants only
            elif k == "set_pos_ms":
                p = p * SR // 1000
            if p < 0:
                p += n
            if p < 0 or p > n:
                return ("raise", "IndexError")
            self.cur = p
            return ("ok",)
        raise ValueError(op)

    def key(self):
        return (self.open, self.cur if (self.open or self.kind in ("buffer", "stdin")) else 0)

    def close(self):
        try:
            self.real.close()
        except Exception:
            pass
        if getattr(self, "pipe", None) is not None:
            self.pipe.close()


def work(task):
    kind, n, sw, ch, d, unpruned, tier = task
    lib()
    big = n > 1000
    data = content_big(n, sw, ch) if big else content(n, sw, ch)
    path = None
    base = kind.split("+")[0]
    if base in ("wavx", "wavx_eager"):
        path = os.path.join(common.scratch_dir(), "src_%d_%d_%d_%s_x.wav" % (n, sw, ch, base))
        write_wav_chunky(path, data, SR, sw, ch)
    elif base in ("raw", "wav", "raw_eager", "wav_eager"):
        path = os.path.join(common.scratch_dir(), "src_%d_%d_%d_%s.%s" % (n, sw, ch, base, base[:3]))
        if base.startswith("raw"):
            with open(path, "wb") as fp:
                fp.write(data)
        else:
            with wave.open(path, "wb") as fp:
                fp.setframerate(SR)
                fp.setsampwidth(sw)
                fp.setnchannels(ch)
                fp.writeframes(data)

    def make():
        s_ = SourceSys(kind, data, sw, ch, path)
        if big:
            s_.big_menu = [1, 1000, 4096, 4097, 8192, 16385, 65536] + ([None] if not kind.startswith("stdin") else [])
            s_.real.open()  # large rows start from an open source, so that depth 3 means three reads
            s_.open = True
        return s_

    res = graph.explore(make, d=d, unpruned_depth=unpruned, max_depth=(3 if big else None))
    viol = []
    for hist, msg in res.violations:
        key = "source=%s samples=%d sw=%d ch=%d history=%s" % (kind, n, sw, ch, hist)
        viol.append((key, msg, {"kind": "source", "source": kind, "n": n, "sw": sw, "ch": ch, "history": hist}))
    cov = {"evaluations": res.histories, "states": res.states, "transitions": res.transitions,
           "traces_validated_against_impl": res.histories, "distinct_nontrivial": res.histories,
           "merges_validated": res.merges_validated,
           "samples": [{"source": kind, "samples": n, "sw": sw, "ch": ch, "deepest_new_state_history": res.sample,
                        "states": res.states, "closed": res.closed}]}
    if not res.closed and not big:
        cov["exhaustive"] = False
        cov["caps_hit"] = ["%s n=%d: closure not reached" % (kind, n)]
    if big:
        cov["large_rows_not_exhaustive"] = res.histories
    return {"cov": cov, "viol": viol}


def position_tables(rep):
    """Buffer source at realistic rates: position_ms / position_s / position agree on every instant that is
    exactly a whole sample (sr*ms divisible by 1000; dyadic seconds), positive and negative."""
    aio = lib()["io"]
    for sr in (8000, 16000, 44100, 48000):
        n = 2 * sr + 7
        src = aio.BufferAudioSource(bytes(n), sr, 1, 1)
        src.open()
        for ms in list(range(0, 2001)) + [-1, -500, -1001, -2000]:
            if (sr * ms) % 1000:
                continue
            rep.add("evaluations")
            want = sr * ms // 1000
            if want < 0:
                want += n
            try:
                src.position_ms = ms
                got = src.position
                back = src.position_ms
            except Exception as exc:
                got = back = "raised %r" % (exc,)
            ok = got == want and (ms < 0 or back == ms)
            if not ok:
                rep.violation("position_ms sr=%d ms=%d" % (sr, ms), "position_ms=%d at %d Hz puts the cursor at sample %r (reads back %r ms), expected sample %d" % (
                    ms, sr, got, back, want), {"kind": "postab", "sr": sr, "ms": ms})
                break
        for k in (0, 1, 2, 1023, 1024, 4097, sr, sr + 1, 2 * sr):
            for unit in ("samples", "seconds"):
                rep.add("evaluations")
                try:
                    if unit == "samples":
                        src.position = k
                    else:
                        if (k * 4096) % sr and sr not in (8000, 16000):
                            continue
                        t = k / sr
                        from fractions import Fraction as F
                        if F(t) * sr != k:
                            continue  # not exactly a sample instant in binary: statement silent
                        src.position_s = t
                    got = src.position
                    nxt = src.read(1)
                except Exception as exc:
                    got = "raised %r" % (exc,)
                if got != k:
                    rep.violation("position %s sr=%d k=%d" % (unit, sr, k), "setting the position to sample %d in %s gives %r" % (k, unit, got),
                                  {"kind": "postab", "sr": sr, "ms": k})
        src.close()


def write_wav_chunky(path, data, rate, sw, ch):
    """A valid RIFF/WAVE file as editors and recorders write them: a LIST chunk between 'fmt ' and 'data', the pad
    byte after an odd-sized 'data' chunk, and further chunks (LIST, id3) after the audio."""
    import struct

    def chunk(cid, payload):
        return cid + struct.pack("<I", len(payload)) + payload + (b"\0" if len(payload) % 2 else b"")

    fmt = struct.pack("<HHIIHH", 1, ch, rate, rate * ch * sw, ch * sw, 8 * sw)
    info = b"INFO" + chunk(b"ISFT", b"verif 1.0\0")
    body = b"WAVE" + chunk(b"fmt ", fmt) + chunk(b"LIST", info) + chunk(b"data", data) + chunk(b"LIST", info) + chunk(b"id3 ", b"ID3\x03\0\0\0\0\0\x07title")
    with open(path, "wb") as fp:
        fp.write(b"RIFF" + struct.pack("<I", len(body)) + body)


def _write(path, data, sw, ch, rate=SR):
    if path.lower().endswith("x.wav"):
        write_wav_chunky(path, data, rate, sw, ch)
    elif path.lower().endswith(".wav"):
        with wave.open(path, "wb") as fp:
            fp.setframerate(rate)
            fp.setsampwidth(sw)
            fp.setnchannels(ch)
            fp.writeframes(data)
    else:
        with open(path, "wb") as fp:
            fp.write(data)


def _open_all(aio, path, lazy, sw, ch, rate=SR):
    kw = {} if path.lower().endswith(".wav") else dict(audio_format="raw", sampling_rate=rate, sample_width=sw, channels=ch)
    return aio.from_file(path, large_file=lazy, **kw)


def loaders_large(rep, quick):
    """Contents around 2^16 and 2^20 samples through every loader (eager / lazy x wav / raw): one read of everything, and
    reads of 65536 samples to the end - directed rows, labelled as such."""
    aio = lib()["io"]
    d = common.scratch_dir()
    for n in ((1 << 16) + 1, (1 << 20) + 3):
        for (sw, ch) in ((2, 2), (2, 1)) if quick else ((2, 2), (2, 1), (1, 3), (4, 2)):
            period = content_big(4099, sw, ch)
            reps = n // 4099 + 1
            data = (period * reps)[: n * sw * ch]  # period 4099 is prime: no chunk size divides it
            for ext in ("wav", "raw", "x.wav"):
                path = os.path.join(d, "big_%d%s%s" % (os.getpid(), "." if ext != "x.wav" else "_", ext))
                _write(path, data, sw, ch)
                for lazy in (False, True):
                    for how in ("all", "chunks", "chunks1000"):
                        rep.add("evaluations")
                        rep.add("large_rows_not_exhaustive")
                        rep.add("distinct_nontrivial")
                        msg = None
                        try:
                            src = _open_all(aio, path, lazy, sw, ch)
                            src.open()
                            if how == "all":
                                got = src.read(-1) if True else None
                                tail = src.read(1)
                            else:
                                parts = []
                                step = 65536 if how == "chunks" else 1000  # 1000 divides no power of two
                                short = None
                                while True:
                                    b = src.read(step)
                                    if b is None:
                                        break
                                    if len(b) == 0 or len(parts) > n // step + 3:
                                        parts.append(b"?")
                                        break
                                    if short is not None:
                                        short = -1  # a short chunk was followed by more data
                                    elif len(b) != step * sw * ch:
                                        short = len(parts)
                                    parts.append(b)
                                if short == -1:
                                    parts.append(b"?short chunk in the middle")
                                got = b"".join(parts)
                                tail = src.read(1)
                            src.close()
                            if got != data:
                                msg = "%d bytes handed out, the file holds %d samples = %d bytes%s" % (
                                    len(got or b""), n, len(data), "" if len(got or b"") != len(data) else " (content differs)")
                            elif tail is not None:
                                msg = "read after the end returned %r" % (tail[:8],)
                        except Exception as exc:
                            msg = "raised %r" % (exc,)
                        if msg:
                            rep.violation("loader-large n=%d sw=%d ch=%d %s lazy=%s %s" % (n, sw, ch, ext, lazy, how),
                                          "%s file of %d samples (%d bytes/sample), %s loading, read %s: %s" % (
                                              ext, n, sw * ch, "lazy" if lazy else "in-memory", how, msg),
                                          {"kind": "loader_large"})
                os.unlink(path)


def fifo_trickle(data, chunks):
    """A named pipe whose writer delivers `data` in the given piece sizes, each piece only after the reader has
    drained the previous one (deterministic short reads for whoever reads the pipe without buffering).  Returns the path;
    the writer starts when somebody opens the pipe for reading."""
    import array
    import fcntl
    import termios
    import threading
    import time

    fifo_trickle.n = getattr(fifo_trickle, "n", 0) + 1
    path = os.path.join(common.scratch_dir(), "trickle_%d_%d.raw" % (os.getpid(), fifo_trickle.n))
    os.mkfifo(path)

    def feed():
        try:
            fd = os.open(path, os.O_WRONLY)
        except OSError:
            return
        avail = array.array("i", [0])
        pos = k = 0
        try:
            while pos < len(data):
                n = max(1, chunks[k % len(chunks)])
                k += 1
                os.write(fd, data[pos : pos + n])
                pos += n
                deadline = time.time() + 1.0
                while time.time() < deadline:
                    fcntl.ioctl(fd, termios.FIONREAD, avail)
                    if avail[0] == 0:
                        break
                    time.sleep(0.00005)
        except OSError:
            pass
        finally:
            os.close(fd)

    threading.Thread(target=feed, daemon=True).start()
    return path


def fifo_lazy(rep):
    """The lazy raw source on a named pipe whose data arrives in pieces that are not whole samples: every read still
    hands out min(n, remaining) whole samples."""
    aio = lib()["io"]
    for (sw, ch) in FORMATS:
        bps = sw * ch
        for n in (0, 1, 5):
            data = content(n, sw, ch)
            for chunks in ((1,), (3,), (bps + 1, 1), (2 * bps - 1,)):
                for sizes in ((1, 2, -1, 1), (None, 1), (2, 2, 2, 2)):
                    rep.add("evaluations")
                    rep.add("distinct_nontrivial", 1 if n else 0)
                    path = fifo_trickle(data, chunks)
                    msg = None
                    try:
                        src = aio.RawAudioSource(path, SR, sw, ch)
                        src.open()
                        cur = 0
                        for size in sizes:
                            got = src.read(size)
                            rem = n - cur
                            cnt = rem if (size is None or size < 0) else min(size, rem)
                            want = data[cur * bps : (cur + cnt) * bps] if rem else None
                            cur += cnt
                            if got != want:
                                msg = "read(%r) hands out %r, expected %r" % (size, got, want)
                                break
                        src.close()
                    except Exception as exc:
                        msg = "raised %r" % (exc,)
                    finally:
                        try:
                            os.unlink(path)
                        except OSError:
                            pass
                    if msg:
                        rep.violation("fifo-lazy n=%d sw=%d ch=%d chunks=%r reads=%r" % (n, sw, ch, chunks, sizes),
                                      "lazy raw source on a named pipe delivering %r-byte pieces (%d-byte samples): %s" % (chunks, bps, msg), {"kind": "fifolazy"})
                        return


def alias_table(rep):
    """Sources built from keyword arguments: a short alias alone works, and when both spellings are given the long
    name wins - whichever was written first."""
    aio = lib()["io"]
    data = content(12, 1, 1)
    d = common.scratch_dir()
    rawp = os.path.join(d, "alias_%d.raw" % os.getpid())
    with open(rawp, "wb") as fp:
        fp.write(data)
    longs = dict(sampling_rate=10, sample_width=2, channels=2)
    shorts_wrong = dict(sr=20, sw=1, ch=1)
    shorts_right = dict(sr=10, sw=2, ch=2)
    cases = [("short only", dict(shorts_right)), ("long only", dict(longs)), ("long first", {**longs, **shorts_wrong}),
             ("short first", {**shorts_wrong, **longs}), ("interleaved", dict(sr=20, sampling_rate=10, sample_width=2, sw=1, ch=1, channels=2))]
    for name, kw in cases:
        for kind in ("bytes", "raw", "raw_lazy", "stdin"):
            rep.add("evaluations")
            old = sys.stdin
            try:
                if kind == "bytes":
                    src = aio.get_audio_source(data, **kw)
                elif kind == "stdin":
                    sys.stdin = FakeStdin(data)
                    src = aio.get_audio_source("-", **kw)
                else:
                    src = aio.get_audio_source(rawp, audio_format="raw", large_file=(kind == "raw_lazy"), **kw)
                src.open()
                got = (src.sampling_rate, src.sample_width, src.channels, src.read(2))
                src.close()
                msg = None if got == (10, 2, 2, data[:8]) else "source is (%r Hz, %r bytes, %r channels), read(2) gives %r" % got
            except Exception as exc:
                msg = "raised %r" % (exc,)
            finally:
                sys.stdin = old
            if msg:
                rep.violation("alias %s %s" % (name, kind), "get_audio_source(%s, %s) [%s]: %s; the long names say 10 Hz, 2 bytes, 2 channels" % (
                    kind, ", ".join("%s=%r" % kv for kv in kw.items()), name, msg), {"kind": "alias"})
    os.unlink(rawp)


def fifo_loads(rep):
    """A named pipe given where a raw file is expected (process substitution, /dev/stdin): the in-memory loader hands out
    everything the writer delivered.  Contents 0..6 samples and one larger than the pipe's buffer."""
    aio = lib()["io"]
    for (sw, ch) in FORMATS:
        for n in list(range(0, 7)) + [40011]:
            data = content(n, sw, ch) if n < 1000 else content_big(n, sw, ch)
            rep.add("evaluations")
            rep.add("distinct_nontrivial", 1 if n else 0)
            for h in ([("read", -1), ("read", 1)], [("read", 1), ("read", 2), ("read", None), ("read", 1)]):
                s_ = SourceSys("fifo_eager", data, sw, ch, None)
                msg = None
                for op in [("open",)] + h:
                    r, m = s_.step(op)
                    if r != m:
                        msg = "named pipe holding %d samples, in-memory load, %r: %s, reference model says %s" % (n, op, graph._short(r), graph._short(m))
                        break
                s_.close()
                if msg:
                    rep.violation("fifo n=%d sw=%d ch=%d" % (n, sw, ch), msg, {"kind": "fifo"})
                    break


def rewritten_files(rep):
    """A history on the file system: the same path is rewritten with other audio of the same size between two loads,
    with a fresh and with a preserved modification time (cp -p / rsync -t); every load hands out the file's current audio."""
    aio = lib()["io"]
    d = common.scratch_dir()
    for ext in ("wav", "raw"):
        for lazy in (False, True):
            for keep_mtime in (False, True):
                path = os.path.join(d, "rw_%d.%s" % (os.getpid(), ext))
                versions = [content(6, 2, 1), bytes(reversed(content(6, 2, 1))), content(6, 2, 1)[2:] + b"\x07\x00"]
                stamp = None
                early = None
                for i, data in enumerate(versions):
                    _write(path, data, 2, 1)
                    if lazy and early is not None:
                        # a lazy source object made while the previous version was on disk, opened only now
                        rep.add("evaluations")
                        try:
                            early.open()
                            got = early.read(-1)
                            early.close()
                        except Exception as exc:
                            got = "raised %r" % (exc,)
                        if got != data:
                            rep.violation("rewritten-early %s keep_mtime=%s load=%d" % (ext, keep_mtime, i + 1),
                                          "a lazy %s source made before the file was rewritten and opened afterwards hands out %r, the file holds %r" % (
                                              ext, got, data), {"kind": "rewritten"})
                            break
                    if keep_mtime:
                        if stamp is None:
                            st = os.stat(path)
                            stamp = (st.st_atime_ns, st.st_mtime_ns)
                        os.utime(path, ns=stamp)
                    rep.add("evaluations")
                    rep.add("distinct_nontrivial")
                    try:
                        src = _open_all(aio, path, lazy, 2, 1)
                        src.open()
                        got = src.read(-1)
                        src.close()
                    except Exception as exc:
                        got = "raised %r" % (exc,)
                    if lazy:
                        early = _open_all(aio, path, True, 2, 1)
                    if got != data:
                        rep.violation("rewritten %s lazy=%s keep_mtime=%s load=%d" % (ext, lazy, keep_mtime, i + 1),
                                      "load #%d of a %s file rewritten in place (%s modification time) hands out %r, the file holds %r" % (
                                          i + 1, ext, "same" if keep_mtime else "new", got, data), {"kind": "rewritten"})
                        break
                os.unlink(path)


def stdin_faults(rep):
    """An environment fault: the k-th read of standard input fails once (EIO / EINTR-like OSError) without consuming
    anything.  Whether the failure is passed on to the caller or retried is the library's choice; what the statement
    fixes is the rest: the chunks handed out stay successive whole-sample chunks of the stream, and None is handed out
    only once nothing remains - a failed read is not the end of the stream."""
    aio = lib()["io"]
    import sys as _sys

    class Faulty:
        def __init__(self, data, k):
            self._b, self._k, self._n = io.BytesIO(data), k, 0

        def read(self, n=-1):
            self._n += 1
            if self._n == self._k:
                raise OSError(5, "Input/output error (injected)")
            return self._b.read(n)

        def read1(self, n=-1):
            return self.read(n)

        def readinto(self, buf):
            self._n += 1
            if self._n == self._k:
                raise OSError(5, "Input/output error (injected)")
            return self._b.readinto(buf)

        def readable(self):
            return True

        closed = False

    class Std:
        pass

    for (sw, ch) in ((2, 1), (1, 2)):
        data = content(7, sw, ch)
        for k in range(1, 6):
            for size in (1, 2, 3):
                rep.add("evaluations")
                rep.add("distinct_nontrivial")
                old = _sys.stdin
                std = Std()
                std.buffer = Faulty(data, k)
                _sys.stdin = std
                try:
                    src = aio.StdinAudioSource(10, sw, ch)
                    src.open()
                    got, msg, raised = [], None, 0
                    for _ in range(20):
                        try:
                            b = src.read(size)
                        except OSError:
                            raised += 1
                            continue
                        except Exception as exc:
                            msg = "raised %r" % (exc,)
                            break
                        if b is None:
                            break
                        got.append(bytes(b))
                    joined = b"".join(got)
                    if msg is None and joined != data:
                        msg = ("after read #%d of standard input failed once, reads of %d sample(s) handed out %d of %d bytes "
                               "before None (chunks %r)" % (k, size, len(joined), len(data), [len(x) for x in got]))
                    elif msg is None and any(len(x) != min(size * sw * ch, len(data) - sum(len(y) for y in got[:i])) for i, x in enumerate(got)):
                        msg = "chunk sizes %r for reads of %d sample(s)" % ([len(x) for x in got], size)
                finally:
                    _sys.stdin = old
                if msg:
                    rep.violation("stdin-fault sw=%d ch=%d k=%d size=%d" % (sw, ch, k, size), msg, {"kind": "stdinfault"})
                    return


def run(prop, tier):
    rep = common.Report(prop, tier, "explicit-state search over the real read/open/close/position operations of every "
                        "source kind to closure, merges validated with d-step suffixes, plus all unpruned operation "
                        "sequences up to a depth, against an (open flag, cursor) reference model")
    quick = tier == "quick"
    tasks = []
    for kind in ("buffer", "raw", "wav", "stdin"):
        for (sw, ch) in FORMATS:
            for n in range(0, 7):
                if kind == "buffer":
                    d, unpruned = (2, 2) if quick else (3, 3)
                    if n <= 3:
                        unpruned += 1
                else:
                    d, unpruned = (2, 4) if quick else (3, 6)
                tasks.append((kind, n, sw, ch, d, unpruned, tier))
    # the in-memory loaders, a named pipe given as a raw file, and sources living next to other sources
    for kind in ("wav_eager", "raw_eager", "buffer+sib", "wav+sib", "raw+sib", "wavx", "wavx_eager"):
        for (sw, ch) in FORMATS:
            for n in range(0, 7):
                tasks.append((kind, n, sw, ch, 1 if quick else 2, 2 if quick else 3, tier))
    # standard input that is a real pipe (with a file descriptor) delivering short pieces
    for (sw, ch) in FORMATS:
        for n in (1, 3, 6):
            for c in ("1", "3", "%d,1" % (sw * ch + 1)):
                tasks.append(("stdin_fd:" + c, n, sw, ch, 0, 2 if quick else 3, tier))
    # large contents, large reads (sizes where chunked or buffered implementations change behaviour)
    for kind in ("buffer", "raw", "wav", "stdin", "stdin:4093", "stdin:8192,1"):
        for (sw, ch) in ((2, 2), (1, 3)):
            tasks.append((kind, 40011, sw, ch, 0, 3 if quick else 4, tier))
    # stdin with short reads: every way of cutting the byte stream into chunks (small contents),
    # fixed trickle patterns otherwise
    for (sw, ch) in FORMATS:
        for n in range(1, 7):
            total = n * sw * ch
            pats = compositions(total) if total <= 6 else [(1,), (3,), (5, 2), (sw * ch + 1,), (2 * sw * ch - 1, 1)]
            for c in pats:
                if len(c) == 1 and c[0] >= total:
                    continue
                tasks.append(("stdin:" + ",".join(map(str, c)), n, sw, ch, 1, 3 if quick else 4, tier))
    rep.cov["rule"] = ("an evaluation is one operation history replayed from scratch on a fresh real source next to the "
                       "reference model, every step's output compared; histories are distinct by construction; all are "
                       "non-trivial (at least one operation) except the empty root")
    rep.cov["bounds"] = {"contents_samples": "0..6", "formats(sw,ch)": FORMATS,
                         "kinds": ["buffer", "raw", "wav", "stdin"]}
    lib()
    position_tables(rep)
    loaders_large(rep, quick)
    fifo_loads(rep)
    fifo_lazy(rep)
    alias_table(rep)
    rewritten_files(rep)
    stdin_faults(rep)
    for part in common.pmap(work, tasks):
        rep.merge(part)
    rep.assumptions += ["seconds/milliseconds positions are exercised on exact sample instants only",
                        "stdin is a BytesIO behind sys.stdin.buffer; PyAudioSource and pydub formats cannot be built here"]
    return rep.finish()


def replay(case):
    lib()
    if case.get("kind") == "alias":
        rep = common.Report("C11", "quick", "")
        alias_table(rep)
        return rep.violations[0][1] if rep.violations else None
    if case.get("kind") == "stdinfault":
        rep = common.Report("C11", "quick", "")
        stdin_faults(rep)
        return rep.violations[0][1] if rep.violations else None
    if case.get("kind") == "fifolazy":
        rep = common.Report("C11", "quick", "")
        fifo_lazy(rep)
        return rep.violations[0][1] if rep.violations else None
    if case.get("kind") == "fifo":
        rep = common.Report("C11", "quick", "")
        fifo_loads(rep)
        return rep.violations[0][1] if rep.violations else None
    if case.get("kind") in ("loader_large", "rewritten"):
        rep = common.Report("C11", "quick", "")
        (loaders_large if case["kind"] == "loader_large" else rewritten_files)(*((rep, True) if case["kind"] == "loader_large" else (rep,)))
        return rep.violations[0][1] if rep.violations else None
    if case.get("kind") == "postab":
        rep = common.Report("C11", "quick", "")
        position_tables(rep)
        return rep.violations[0][1] if rep.violations else None
    kind, n, sw, ch = case["source"], case["n"], case["sw"], case["ch"]
    data = content_big(n, sw, ch) if n > 1000 else content(n, sw, ch)
    path = None
    base = kind.split("+")[0]
    if base in ("wavx", "wavx_eager"):
        path = os.path.join(common.scratch_dir(), "replay_x.wav")
        write_wav_chunky(path, data, SR, sw, ch)
    elif base in ("raw", "wav", "raw_eager", "wav_eager"):
        path = os.path.join(common.scratch_dir(), "replay.%s" % base[:3])
        if base.startswith("raw"):
            open(path, "wb").write(data)
        else:
            with wave.open(path, "wb") as fp:
                fp.setframerate(SR)
                fp.setsampwidth(sw)
                fp.setnchannels(ch)
                fp.writeframes(data)
    hist = [tuple(op) for op in case["history"]]
    def mk():
        s_ = SourceSys(kind, data, sw, ch, path)
        if n > 1000:
            s_.big_menu = [1]
            s_.real.open()
            s_.open = True
        return s_

    s, msg = graph.replay(mk, hist)
    s.close()
    return msg

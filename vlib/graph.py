"""GRAPH - explicit-state search over the real transition function.

A state *is* the event history that reaches it: live objects are never copied,
every history is replayed on a fresh real object next to a fresh reference
model.  `System` subclasses provide:

    ops()            -> list of operations enabled now (small finite menu)
    step(op)         -> (real_output, model_output)   both already normalised
    key()            -> hashable: reference-model state + public observables
    close()          -> release OS resources

Merging is validated, not assumed: whenever a history reaches a key that is
already known, every operation sequence of length <= d is still run from the
new history and compared with the model.
"""

import collections
import itertools


class Result:
    def __init__(self):
        self.states = 0
        self.transitions = 0
        self.histories = 0  # histories replayed against the implementation
        self.steps = 0
        self.max_depth = 0
        self.closed = True
        self.violations = []  # (history, message)
        self.merges_validated = 0
        self.sample = None


def _short(x, limit=160):
    if isinstance(x, tuple) and len(x) == 2 and isinstance(x[1], (bytes, bytearray)) and len(x[1]) > 48:
        return "(%r, <%d bytes: %s...%s>)" % (x[0], len(x[1]), x[1][:12].hex(), x[1][-6:].hex())
    r = repr(x)
    return r if len(r) <= limit else r[:limit] + "...(%d chars)" % len(r)


def norm_exc(exc):
    return ("raise", type(exc).__name__)


def replay(make, hist):
    """Replays hist on a fresh system; returns (system, first complaint or None)."""
    s = make()
    for i, op in enumerate(hist):
        try:
            r, m = s.step(op)
        except Exception as exc:  # the harness' own step must not raise
            s.close()
            raise
        if r != m:
            return s, "after %r: operation %r gives %s, reference model says %s" % (list(hist[:i]), op, _short(r), _short(m))
    return s, None


def explore(make, d=2, max_depth=None, unpruned_depth=0, max_states=200000, max_viol=3):
    """BFS to closure (or max_depth) with validated merges, plus every sequence of
    length <= unpruned_depth with no pruning at all."""
    res = Result()
    s0, msg = replay(make, ())
    seen = {s0.key(): ()}
    s0.close()
    frontier = collections.deque([()])
    res.states = 1

    def run(hist):
        res.histories += 1
        res.steps += len(hist)
        s, msg = replay(make, hist)
        if msg and len(res.violations) < max_viol:
            res.violations.append((list(hist), msg))
        return s, msg

    def suffix_check(hist, depth, level=0):
        """All op sequences of length <= depth from hist (ops re-read at every step)."""
        if depth == 0:
            return
        s, msg = run(hist)
        if msg:
            s.close()
            return
        ops = s.ops_small() if (level > 0 and hasattr(s, "ops_small")) else s.ops()
        s.close()
        for op in ops:
            h2 = hist + (op,)
            s2, msg2 = run(h2)
            s2.close()
            if msg2:
                if len(res.violations) >= max_viol:
                    return
                continue
            if depth > 1:
                suffix_check(h2, depth - 1, level + 1)

    while frontier and len(res.violations) < max_viol:
        hist = frontier.popleft()
        s, msg = run(hist)
        ops = s.ops() if not msg else []
        s.close()
        for op in ops:
            h2 = hist + (op,)
            s2, msg2 = run(h2)
            res.transitions += 1
            if msg2:
                s2.close()
                if len(res.violations) >= max_viol:
                    break
                continue
            k = s2.key()
            s2.close()
            if k not in seen:
                seen[k] = h2
                res.states += 1
                res.max_depth = max(res.max_depth, len(h2))
                if res.sample is None or len(h2) > len(res.sample):
                    res.sample = list(h2)
                if max_depth is None or len(h2) < max_depth:
                    frontier.append(h2)
                else:
                    res.closed = False
                if res.states >= max_states:
                    res.closed = False
                    frontier.clear()
                    break
            elif d > 0:
                res.merges_validated += 1
                suffix_check(h2, d)
    if unpruned_depth and len(res.violations) < max_viol:
        # every sequence up to the depth, no deduplication
        level = [()]
        for depth in range(unpruned_depth):
            nxt = []
            for hist in level:
                s, msg = run(hist)
                ops = s.ops() if not msg else []
                s.close()
                for op in ops:
                    h2 = hist + (op,)
                    if depth == unpruned_depth - 1:
                        s2, msg2 = run(h2)
                        s2.close()
                        if msg2 and len(res.violations) >= max_viol:
                            return res
                    else:
                        nxt.append(h2)
            level = nxt
    return res

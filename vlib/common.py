"""Shared plumbing for every check: locating the tree under test, evidence and
replay files, known findings, the process pool.

Nothing in here knows about a particular property.
"""

import hashlib
import json
import multiprocessing
import os
import shutil
import sys
import tempfile
import time
import atexit

VERIF = os.path.dirname(os.path.dirname(os.path.abspath(__file__)))
REPO = os.path.abspath(os.environ.get("VERIF_REPO", "/repo"))
NPROC = int(os.environ.get("VERIF_NPROC", "16"))

sys.dont_write_bytecode = True  # never drop __pycache__ into the tree under test


def _quiet_unraisable(hook=sys.unraisablehook):
    """CPython 3.12's wave.Wave_write.__del__ raises AttributeError when wave.open() itself failed (e.g. a missing
    output directory, which some checks provoke on purpose thousands of times): that stdlib noise is dropped,
    every other unraisable exception is still printed."""

    def filt(u):
        obj = getattr(u, "object", None)
        if getattr(obj, "__qualname__", "") == "Wave_write.__del__" and isinstance(u.exc_value, AttributeError):
            return
        hook(u)

    sys.unraisablehook = filt


_quiet_unraisable()


def seed():
    try:
        return int(os.environ.get("VERIF_SEED", "0"))
    except ValueError:
        return 0


def import_auditok():
    """Import auditok from the working tree under test (never an installed copy)."""
    if sys.path[0] != REPO:
        sys.path.insert(0, REPO)
    import auditok  # noqa

    here = os.path.realpath(os.path.dirname(auditok.__file__))
    want = os.path.realpath(os.path.join(REPO, "auditok"))
    if here != want:
        print("HARNESS-ERROR: auditok imported from %s, wanted %s" % (here, want))
        sys.exit(2)
    return auditok


_SCRATCH = None


def scratch_dir():
    """Per-process scratch directory outside /repo and /verif, removed at exit."""
    global _SCRATCH
    if _SCRATCH is None or _SCRATCH[0] != os.getpid():
        base = os.environ.get("VERIF_SCRATCH")
        if _PARENT_SCRATCH is not None and os.path.isdir(_PARENT_SCRATCH):
            base = _PARENT_SCRATCH
        if base is None:
            base = "/dev/shm" if os.path.isdir("/dev/shm") else tempfile.gettempdir()
        d = tempfile.mkdtemp(prefix="auditok.verif-", dir=base)
        _SCRATCH = (os.getpid(), d)
        atexit.register(_rm_scratch, os.getpid(), d)
    return _SCRATCH[1]


def _rm_scratch(pid, d):
    if os.getpid() == pid:
        shutil.rmtree(d, ignore_errors=True)


# ---------------------------------------------------------------------------
# process pool


_PARENT_SCRATCH = None


def _pool_init():
    # a pool worker makes its scratch directory inside its parent's, which the parent removes at exit
    # (pool workers are terminated, their own atexit handlers never run)
    global _SCRATCH, _PARENT_SCRATCH
    if _SCRATCH is not None:
        _PARENT_SCRATCH = _SCRATCH[1]
    _SCRATCH = None


def crashed_in_library(tb):
    """True when the exception came out of auditok called by the harness (a crash of the code under test, rule R5),
    False when harness code is the innermost responsible party (harness bug, or a harness callback the library called)."""
    lib = os.path.realpath(os.path.join(REPO, "auditok")) + os.sep
    mine = os.path.realpath(VERIF) + os.sep
    verdict = False
    while tb is not None:
        fn = os.path.realpath(tb.tb_frame.f_code.co_filename)
        if fn.startswith(mine):
            verdict = False
        elif fn.startswith(lib):
            verdict = True
        tb = tb.tb_next
    return verdict


def _tuples(x):
    if isinstance(x, list):
        return tuple(_tuples(y) for y in x)
    return x


class _Guard:
    """Turns an exception that escapes from the library inside a work function into a reported violation (with a
    replay that re-runs that work item) instead of a harness error."""

    def __init__(self, func):
        self.func = func

    def __call__(self, task):
        try:
            return self.func(task)
        except Exception as exc:
            if not crashed_in_library(exc.__traceback__):
                raise
            import traceback

            where = traceback.extract_tb(exc.__traceback__)[-1]
            what = "auditok raised %s: %s (at %s:%d) where the harness gave it valid input [work item %s.%s%s]" % (
                type(exc).__name__, " ".join(str(exc).split())[:200], os.path.basename(where.filename), where.lineno,
                self.func.__module__.split(".")[-1], self.func.__name__, repr(task)[:160])
            key = "crash %s.%s %s %s" % (self.func.__module__.split(".")[-1], self.func.__name__, type(exc).__name__, repr(task)[:200])
            case = {"kind": "crash", "module": self.func.__module__, "func": self.func.__name__, "task": jsonable(task)}
            return {"cov": {}, "viol": [(key, what, case)], "nviol": 1}


def replay_crash(case):
    import importlib

    func = getattr(importlib.import_module(case["module"]), case["func"])
    task = _tuples(case["task"])
    try:
        part = func(task)
    except Exception as exc:
        if crashed_in_library(exc.__traceback__):
            return "auditok raised %s: %s" % (type(exc).__name__, " ".join(str(exc).split())[:200])
        raise
    if isinstance(part, dict) and part.get("viol"):
        return part["viol"][0][1]
    return None


def pmap(func, tasks, procs=None, chunksize=1, guard=True):
    """Run func over tasks on a fork pool; yields results in completion order.

    func must be a module-level function.  With one task or VERIF_NPROC=1 runs
    inline (keeps tracebacks readable while developing).
    """
    tasks = list(tasks)
    procs = procs or NPROC
    if guard:
        func = _Guard(func)
    if procs <= 1 or len(tasks) <= 1:
        for t in tasks:
            yield func(t)
        return
    scratch_dir()
    ctx = multiprocessing.get_context("fork")
    with ctx.Pool(min(procs, len(tasks)), initializer=_pool_init) as pool:
        for r in pool.imap_unordered(func, tasks, chunksize):
            yield r


# ---------------------------------------------------------------------------
# known findings


def load_known():
    path = os.path.join(VERIF, "known_findings.json")
    if not os.path.exists(path):
        return {"known": [], "fixed": []}
    with open(path) as fp:
        return json.load(fp)


# ---------------------------------------------------------------------------
# report


def jsonable(x):
    if isinstance(x, (str, int, float, bool)) or x is None:
        return x
    if isinstance(x, bytes):
        return {"hex": x.hex()}
    if isinstance(x, (list, tuple)):
        return [jsonable(y) for y in x]
    if isinstance(x, (set, frozenset)):
        return sorted((jsonable(y) for y in x), key=repr)
    if isinstance(x, dict):
        return {str(k): jsonable(v) for k, v in x.items()}
    return repr(x)


class Report:
    """Collects what one run of one check covered and found.

    violation(key, what, case): `key` identifies the failing input / history /
    schedule (it is what known_findings.json matches on), `case` is the JSON
    payload the replay command re-executes.
    """

    MAX_REPLAYS = 5

    def __init__(self, prop, tier, technique):
        self.prop = prop
        self.tier = tier
        self.technique = technique
        self.t0 = time.time()
        self.cov = {
            "evaluations": 0,
            "distinct_nontrivial": 0,
            "rule": "",
            "samples": [],
            "states": 0,
            "transitions": 0,
            "traces_validated_against_impl": 0,
            "exhaustive": True,
            "caps_hit": [],
            "bounds": {},
            "ambiguous_skipped": 0,
        }
        self.assumptions = []
        self.violations = []  # (key, what, case)
        self.nviol = 0

    # coverage helpers
    def add(self, key, n=1):
        self.cov[key] = self.cov.get(key, 0) + n

    def sample(self, s, cap=6):
        if len(self.cov["samples"]) < cap:
            self.cov["samples"].append(jsonable(s))

    def cap(self, what):
        self.cov["exhaustive"] = False
        self.cov["caps_hit"].append(what)

    def violation(self, key, what, case):
        self.nviol += 1
        if len(self.violations) < 200:
            self.violations.append((key, what, case))

    def merge(self, part):
        """Merge a worker's partial result: dict with 'cov' (ints are summed,
        lists extended), 'viol' list of (key, what, case), optional 'nviol'."""
        for k, v in part.get("cov", {}).items():
            if isinstance(v, bool):
                self.cov[k] = self.cov.get(k, True) and v
            elif isinstance(v, (int, float)):
                self.cov[k] = self.cov.get(k, 0) + v
            elif isinstance(v, list):
                cur = self.cov.setdefault(k, [])
                if k == "samples":
                    for s in v:
                        self.sample(s)
                else:
                    cur.extend(v)
            elif isinstance(v, dict):
                self.cov.setdefault(k, {}).update(v)
        viol = part.get("viol", [])
        self.nviol += part.get("nviol", len(viol))
        for v in viol:
            if len(self.violations) < 200:
                self.violations.append(tuple(v))

    def finish(self):
        known = load_known()
        known_keys = {
            (k["property"], k["key"]): k for k in known.get("known", [])
        }
        os.makedirs(os.path.join(VERIF, "evidence"), exist_ok=True)
        lines = []
        new = []
        seen_known = set()
        # simplest first: shortest key, then lexicographic
        self.violations.sort(key=lambda v: (len(str(v[0])), str(v[0])))
        for key, what, case in self.violations:
            if (self.prop, key) in known_keys:
                if key not in seen_known:
                    seen_known.add(key)
                    lines.append(
                        "KNOWN-FINDING: property=%s %s" % (self.prop, known_keys[(self.prop, key)].get("what", what))
                    )
                continue
            new.append((key, what, case))
        written = []
        for key, what, case in new[: self.MAX_REPLAYS]:
            path = write_replay(self.prop, key, what, case)
            written.append(path)
            lines.append("VIOLATION property=%s replay=%s" % (self.prop, path))
            lines.append("  what: %s" % what)
        n_new = len(new)
        wall = time.time() - self.t0
        ev = {
            "property_id": self.prop,
            "tier": self.tier,
            "seed": seed(),
            "level": "model_checking",
            "technique": self.technique,
            "coverage": jsonable(self.cov),
            "assumptions": self.assumptions,
            "wall_s": round(wall, 3),
            "violations": n_new if n_new else 0,
            "violations_total_incl_duplicates": self.nviol,
            "known_findings_seen": sorted(seen_known),
            "repo": REPO,
        }
        if not ev["coverage"]["samples"]:
            ev["coverage"]["samples"] = ["(no case recorded)"]
        evdir = os.path.join(VERIF, "evidence")
        if REPO != "/repo" or os.environ.get("VERIF_NO_EVIDENCE"):
            # a scratch tree (mutant / seeded change): never overwrite the evidence of the real tree
            evdir = os.path.join(VERIF, "replays", "_evidence_other_trees")
            os.makedirs(evdir, exist_ok=True)
        with open(os.path.join(evdir, self.prop + ".json"), "w") as fp:
            json.dump(ev, fp, indent=1, sort_keys=True)
            fp.write("\n")
        for l in lines:
            print(l)
        c = self.cov
        print(
            "%s tier=%s seed=%d evaluations=%d distinct_nontrivial=%d states=%d transitions=%d "
            "traces_vs_impl=%d exhaustive=%s violations=%d wall=%.1fs"
            % (
                self.prop,
                self.tier,
                seed(),
                c["evaluations"],
                c["distinct_nontrivial"],
                c["states"],
                c["transitions"],
                c["traces_validated_against_impl"],
                c["exhaustive"],
                n_new,
                wall,
            )
        )
        sys.stdout.flush()
        return 1 if n_new else 0


MODULES = {
    "C01": "chk_tok", "C02": "chk_tok", "C03": "chk_tok", "C04": "chk_tok", "C08": "chk_tok",
    "C20": "chk_reuse",
    "C05": "chk_split", "C06": "chk_split", "C07": "chk_energy", "C09": "chk_split",
    "C10": "chk_reader", "C19": "chk_reader", "C11": "chk_sources",
    "C12": "chk_workers", "C13": "chk_workers", "C14": "chk_workers",
    "C15": "chk_cli",
    "C16": "chk_region", "C17": "chk_region", "C18": "chk_region",
}

TEST_TEMPLATE = """# Plain pytest replay of one recorded violation of {prop} (no explorer involved).
#   {what}
# Run:  /venv/bin/python -m pytest -q {path}      (fails while the violation persists)
import json
import os
import sys

sys.path.insert(0, {verif!r})
sys.dont_write_bytecode = True


def test_replay_{digest}():
    from vlib import common
    from vlib import {module} as mod

    with open(os.path.join(os.path.dirname(__file__), "{digest}.json")) as fp:
        case = common.unhex(json.load(fp)["case"])
    complaint = (common.replay_crash if case.get("kind") == "crash" else mod.replay)(case)
    assert complaint is None, complaint
"""


def write_replay(prop, key, what, case):
    d = os.path.join(VERIF, "replays", prop)
    os.makedirs(d, exist_ok=True)
    payload = {"property": prop, "key": key, "what": what, "case": jsonable(case)}
    digest = hashlib.sha1(json.dumps(payload["case"], sort_keys=True).encode() + str(key).encode()).hexdigest()[:12]
    path = os.path.join(d, digest + ".json")
    with open(path, "w") as fp:
        json.dump(payload, fp, indent=1, sort_keys=True)
        fp.write("\n")
    if prop in MODULES:
        tpath = os.path.join(d, "test_%s.py" % digest)
        with open(tpath, "w") as fp:
            fp.write(TEST_TEMPLATE.format(prop=prop, what=" ".join(str(what).split())[:300], path=tpath, verif=VERIF,
                                          digest=digest, module=MODULES[prop]))
    return path


def load_replay(path):
    with open(path) as fp:
        return json.load(fp)


def unhex(x):
    """Inverse of jsonable for bytes inside replay cases."""
    if isinstance(x, dict) and set(x) == {"hex"}:
        return bytes.fromhex(x["hex"])
    if isinstance(x, list):
        return [unhex(y) for y in x]
    if isinstance(x, dict):
        return {k: unhex(v) for k, v in x.items()}
    return x

"""C01, C02, C03, C04, C08: one bounded-exhaustive driver over (parameter tuple x
stream), one oracle per property.  See DESIGN.md section 4.

ENUM stage   : every tuple of a grid x every stream of length <= L.
COVER stage  : (C04) explicit-state closure of the reference automaton RefTok and
               a W-method style transition cover replayed against the real tokenizer,
               which carries the claim to larger max_length than 2^L allows.
"""

import itertools
import time

from . import common
from . import tokmodel as tm

ORACLES = ("C01", "C02", "C03", "C04", "C08")


class Src:
    """Counting DataSource: how many frames were handed out, how many Nones."""

    __slots__ = ("f", "i", "nones", "tok", "sigs")

    def __init__(self, frames, tok=None):
        self.f = frames
        self.i = 0
        self.nones = 0
        self.tok = tok
        self.sigs = None

    def read(self):
        if self.sigs is not None:
            t = self.tok
            d = getattr(t, "_data", None)
            self.sigs.append(
                (
                    getattr(t, "_state", None),
                    len(d) if d is not None else None,
                    getattr(t, "_silence_length", None),
                    getattr(t, "_contiguous_token", None),
                )
            )
        if self.i >= len(self.f):
            self.nones += 1
            return None
        self.i += 1
        return self.f[self.i - 1]


def _valid_tuple(f):
    return f[1]


# identity-carrying frames, shared by every stream of a worker
_FR = [((i, False), (i, True)) for i in range(64)]


def frames_of(n, bits):
    global _FR
    if n > len(_FR):
        _FR = [((i, False), (i, True)) for i in range(n + 1)]
    return [_FR[i][(bits >> i) & 1] for i in range(n)]


def flags_of(n, bits):
    return [bool((bits >> i) & 1) for i in range(n)]


def stream_str(n, bits):
    return "".join("A" if (bits >> i) & 1 else "a" for i in range(n))


_lazy = {}


def _auditok():
    if "ST" not in _lazy:
        common.import_auditok()
        from auditok.core import StreamTokenizer
        from auditok.util import AudioEnergyValidator, DataValidator, StringDataSource

        class Upper(DataValidator):
            def is_valid(self, frame):
                return frame.isupper()

        _lazy.update(ST=StreamTokenizer, AEV=AudioEnergyValidator, Upper=Upper, SDS=StringDataSource)
    return _lazy


def run_generator(params, frames, validator=_valid_tuple, sigs=None):
    """One real tokenizer run in generator mode with hand-over instrumentation.
    Returns ([(data, s, e, frames_read, nones_read)], source)."""
    ST = _auditok()["ST"]
    mn, mx, ms, im, is_, mode = params
    tok = ST(validator, mn, mx, ms, im, is_, mode)
    src = Src(frames, tok)
    src.sigs = sigs
    hand = []
    for data, s, e in tok.tokenize(src, generator=True):
        hand.append((data, s, e, src.i, src.nones))
    return hand, src


def run_list(params, frames, validator=_valid_tuple):
    ST = _auditok()["ST"]
    mn, mx, ms, im, is_, mode = params
    tok = ST(validator, mn, mx, ms, im, is_, mode)
    return tok.tokenize(Src(frames))


def run_callback(params, frames, validator=_valid_tuple, hand=None):
    """Callback mode; if `hand` is a list, (s, e, frames_read, nones_read) is logged at every callback entry."""
    ST = _auditok()["ST"]
    mn, mx, ms, im, is_, mode = params
    tok = ST(validator, mn, mx, ms, im, is_, mode)
    out = []
    src = Src(frames)

    def cb(d, s, e):
        out.append((d, s, e))
        if hand is not None:
            hand.append((s, e, src.i, src.nones))
        return len(out)  # a callback's return value (here a truthy count) means nothing to the tokenizer

    ret = tok.tokenize(src, callback=cb)
    return out, ret


def pcm_frames(flags):
    """Real PCM windows (2 int16 samples each), distinct objects per position."""
    out = []
    for i, v in enumerate(flags):
        a = (20000 + i) if v else (i % 7)
        out.append(int(a).to_bytes(2, "little", signed=True) * 2)
    return out


def judge(oracle, params, n, bits, memo, variant=0):
    """Run one (tuple, stream) case under one oracle.  Returns (complaint|None,
    nontrivial: bool, tokens [(s,e)])."""
    mn, mx, ms, im, is_, mode = [int(x) for x in params]  # the oracles work on plain ints whatever type was passed in
    frames = frames_of(n, bits)
    flags = flags_of(n, bits)
    try:
        hand, src = run_generator(params, frames)
    except Exception as exc:  # R5: a crash is a violation of the property exercised
        return "tokenizer raised %r" % (exc,), True, []
    toks = [(d, s, e) for d, s, e, _, _ in hand]
    se = [(s, e) for _, s, e in toks]
    if memo is not None:
        memo[(n, bits)] = se
    msg = None
    if oracle == "C01":
        msg = tm.check_c01(frames, toks)
        if msg is None and variant:
            msg = _c01_variant(params, flags, se, variant)
        if msg is None:
            cb, ret = run_callback(params, frames)
            if ret is not None:
                msg = "callback mode returned %r" % (ret,)
            else:
                msg = tm.check_c01(frames, cb)
                if msg:
                    msg = "callback arguments: " + msg
    elif oracle == "C02":
        msg = tm.check_c02(toks, mn, mx, mode)
        if msg is None and n and variant == 0:
            # the source fails at read k: whatever was handed over before the failure obeys the same rules
            k = (bits + n) % (n + 1)
            part = fault_run(params, frames, k)
            msg = tm.check_c02(part, mn, mx, mode) or tm.check_c01(frames, part)
            if msg:
                msg = "source raising at read %d: %s" % (k, msg)
    elif oracle == "C03":
        fl = [([f[1] for f in d], s, e) for d, s, e in toks]
        msg = tm.check_c03(fl, mn, mx, ms, im, is_, mode)
        if msg is None and n:
            k = (bits + n) % (n + 1)
            part = fault_run(params, frames, k)
            msg = tm.check_c03([([f[1] for f in d], s_, e_) for d, s_, e_ in part], mn, mx, ms, im, is_, mode)
            if msg:
                msg = "source raising at read %d: %s" % (k, msg)
    elif oracle == "C04":
        exp = tm.segment(flags, mn, mx, ms, mode)
        if se != exp:
            msg = "delivered %r, greedy segmentation is %r" % (se, exp)
        elif variant:
            msg = _falsy_variant(params, flags, se, variant)
    elif oracle == "C08":
        if src.nones != 1:
            msg = "end of stream requested %d times" % src.nones
        elif src.i != n:
            msg = "only %d of %d frames read" % (src.i, n)
        if msg is None:
            msg = tm.check_c08_timing(flags, [(s, e, r, z) for _, s, e, r, z in hand], mx, ms)
        if msg is None:
            lst = run_list(params, frames)
            cbhand = []
            cb, ret = run_callback(params, frames, hand=cbhand)
            m2 = tm.check_c08_timing(flags, cbhand, mx, ms)
            if m2:
                msg = "callback mode: " + m2
            if msg:
                pass
            elif [(d, s, e) for d, s, e in lst] != toks or not isinstance(lst, list):
                msg = "list mode %r differs from generator mode %r" % (
                    [(s, e) for _, s, e in lst], se)
            elif cb != toks:
                msg = "callback mode %r differs from generator mode %r" % (
                    [(s, e) for _, s, e in cb], se)
        if msg is None and variant in (3, 4, 5, 6):
            # frames that are falsy objects are frames like any other: same hand-over points, one end-of-stream request
            frames2, val2 = falsy_frames(flags, variant)
            tok2 = _auditok()["ST"](val2, mn, mx, ms, im, is_, mode)
            src2 = Src(frames2, tok2)
            try:
                hand2 = [(s, e, src2.i, src2.nones) for _, s, e in tok2.tokenize(src2, generator=True)]
                if src2.nones != 1 or src2.i != n:
                    msg = "falsy frames (kind %d): end of stream requested %d times, %d of %d frames read" % (variant, src2.nones, src2.i, n)
                else:
                    m3 = tm.check_c08_timing(flags, hand2, mx, ms)
                    if m3:
                        msg = "falsy frames (kind %d): %s" % (variant, m3)
            except Exception as exc:
                msg = "falsy frames (kind %d): tokenizer raised %r" % (variant, exc)
        if msg is None and memo is not None:
            fh = [(s, e, r, z) for _, s, e, r, z in hand]
            for k in range(n):
                pt = memo.get((k, bits & ((1 << k) - 1)))
                if pt is None:
                    continue
                msg = tm.check_prefix(fh, pt, k)
                if msg:
                    break
    return msg, bool(se), se


def falsy_frames(flags, kind):
    """Frames that are falsy / zero-length objects: an empty list, '', b'', 0, False are frames like any
    other (only None means end of stream).  kind 3: distinct list objects ([] invalid, [i] valid);
    kind 4: ints (0 invalid, 1 valid); kind 5: '' invalid / 'A' valid; kind 6: () valid / (0,) invalid (inverted)."""
    if kind == 3:
        return [[i] if v else [] for i, v in enumerate(flags)], bool
    if kind == 4:
        return [1 if v else 0 for v in flags], bool
    if kind == 5:
        return ["A" if v else "" for v in flags], bool
    return [() if v else (0,) for v in flags], (lambda f: len(f) == 0)


class ScriptedValidator:
    """A validator whose answer depends only on how many times it has been asked (the k-th call answers for
    frame k): a stand-in for history-dependent validators (hysteresis, adaptive noise floor).  A tokenizer that
    asks twice about a frame, or out of order, gets answers that no longer belong to the frames."""

    def __init__(self, flags):
        self.flags = flags
        self.calls = 0

    def __call__(self, frame):
        k = self.calls
        self.calls += 1
        return self.flags[k] if k < len(self.flags) else False


def _scripted_variant(params, flags, se):
    mn, mx, ms, im, is_, mode = params
    val = ScriptedValidator(flags)
    # odd lengths: every frame is the very same object (a run of identical windows), even lengths: distinct frames
    frames = ["f"] * len(flags) if len(flags) % 2 else [("f", i) for i in range(len(flags))]
    tok = _auditok()["ST"](val, mn, mx, ms, im, is_, mode)
    try:
        got = tok.tokenize(Src(frames))
    except Exception as exc:
        return "history-dependent validator: tokenizer raised %r" % (exc,)
    if val.calls != len(flags):
        return "the validator was asked %d times about %d frames" % (val.calls, len(flags))
    if [(a, b) for _, a, b in got] != se:
        return "a validator that answers by call order gives %r, a pure validator with the same answers %r" % ([(a, b) for _, a, b in got], se)
    return None


def fault_run(params, frames, k):
    """Generator mode on a source that raises at read k: the tokens handed over before the failure."""
    from .chk_reuse import RaisingSrc, Boom

    ST = _auditok()["ST"]
    tok = ST(_valid_tuple, *params)
    out = []
    try:
        for t in tok.tokenize(RaisingSrc(frames, k), generator=True):
            out.append(t)
    except Boom:
        pass
    return out


def _falsy_variant(params, flags, se, variant):
    if variant == 7:
        return _scripted_variant(params, flags, se)
    mn, mx, ms, im, is_, mode = params
    frames, val = falsy_frames(flags, variant)
    tok = _auditok()["ST"](val, mn, mx, ms, im, is_, mode)
    src = Src(frames)
    try:
        got = tok.tokenize(src)
    except Exception as exc:
        return "falsy frames (kind %d): tokenizer raised %r" % (variant, exc)
    if src.i != len(frames):
        return "falsy frames (kind %d): only %d of %d frames were read" % (variant, src.i, len(frames))
    for d, a, b in got:
        if list(d) != frames[a : b + 1] or (variant == 3 and any(x is not frames[a + k] for k, x in enumerate(d))):
            return "falsy frames (kind %d): token (%d,%d) holds %r, stream has %r" % (variant, a, b, d, frames[a : b + 1])
    if [(a, b) for _, a, b in got] != se:
        return "falsy frames (kind %d) give %r, tuple frames give %r" % (variant, [(a, b) for _, a, b in got], se)
    return None


def _c01_variant(params, flags, se, variant):
    """Other frame types / validator kinds must give the same exact slices."""
    L = _auditok()
    mn, mx, ms, im, is_, mode = params
    if variant >= 3:
        return _falsy_variant(params, flags, se, variant)
    if variant == 1:
        s = "".join("A" if v else "a" for v in flags)
        tok = L["ST"](L["Upper"](), mn, mx, ms, im, is_, mode)
        got = tok.tokenize(L["SDS"](s))
        for d, a, b in got:
            if d != list(s[a : b + 1]):
                return "string source: token (%d,%d) holds %r, stream has %r" % (a, b, d, s[a : b + 1])
        if [(a, b) for _, a, b in got] != se:
            return "string source/DataValidator gives %r, tuple frames give %r" % ([(a, b) for _, a, b in got], se)
    else:
        frames = pcm_frames(flags)
        val = L["AEV"](60, 2, 1)
        tok = L["ST"](val, mn, mx, ms, im, is_, mode)
        got = tok.tokenize(Src(frames))
        msg = tm.check_c01(frames, got)
        if msg:
            return "PCM frames/energy validator: " + msg
        if [(a, b) for _, a, b in got] != se:
            return "PCM frames/energy validator gives %r, tuple frames give %r" % ([(a, b) for _, a, b in got], se)
    return None


def work_enum(task):
    """Worker: tuples x all streams of length <= L under one oracle."""
    oracle, tuples, L, want_sigs = task
    cov = {"evaluations": 0, "distinct_nontrivial": 0, "traces_validated_against_impl": 0,
           "states": 0, "transitions": 0, "samples": []}
    viol = []
    nviol = 0
    held = None  # tokens delivered by an earlier run (another tokenizer object), re-checked later
    for params in tuples:
        memo = {} if oracle == "C08" else None
        states = set()
        trans = set()
        per_tuple = 0
        idx = 0
        for n in range(L + 1):
            for bits in range(1 << n):
                idx += 1
                if oracle == "C01" and idx % 5 == 0:
                    # tokens a consumer still holds must not change when other tokenizers run afterwards
                    if held is not None:
                        hmsg = tm.check_c01(held[0], held[1])
                        if hmsg and len(viol) < 40:
                            nviol += 1
                            viol.append(("held tokens tuple=%s stream=%s" % (",".join(map(str, held[2])), held[3]),
                                         "tokens delivered earlier were altered by later runs of other tokenizers: " + hmsg,
                                         {"kind": "tok", "oracle": "C01", "params": list(held[2]), "stream": held[3]}))
                    fr_ = frames_of(n, bits)
                    try:
                        held = (fr_, [(d, s_, e_) for d, s_, e_, _, _ in run_generator(params, fr_)[0]], params, stream_str(n, bits))
                    except Exception:
                        held = None
                variant = 0
                if oracle == "C01":
                    variant = (idx % 8)  # 0: tuple frames only, 1: +string, 2: +PCM, 3..6: +falsy / zero-length frames, 7: scripted validator
                elif oracle == "C04":
                    variant = 3 + (idx % 5) if idx % 2 else 0
                elif oracle == "C08":
                    variant = 3 + (idx % 4) if idx % 3 == 0 else 0  # every third case also with falsy / zero-length frames
                msg, nontrivial, se = judge(oracle, params, n, bits, memo, variant)
                cov["evaluations"] += 1
                cov["traces_validated_against_impl"] += 1
                if nontrivial:
                    cov["distinct_nontrivial"] += 1
                if msg:
                    nviol += 1
                    per_tuple += 1
                    if per_tuple <= 2 and len(viol) < 40:
                        key = "tuple=%s stream=%s" % (",".join(map(str, params)), stream_str(n, bits))
                        viol.append((key, msg, {"kind": "tok", "oracle": oracle, "params": list(params),
                                                "stream": stream_str(n, bits)}))
                if want_sigs and n == L:
                    sigs = []
                    run_generator(params, frames_of(n, bits), sigs=sigs)
                    for j in range(n):
                        states.add(sigs[j])
                        trans.add((sigs[j], (bits >> j) & 1))
                    states.add(sigs[n])
                    trans.add((sigs[n], 2))
        cov["states"] += len(states)
        cov["transitions"] += len(trans)
        if len(cov["samples"]) < 2 and L >= 3:
            n, bits = L, (0b1011011101 & ((1 << L) - 1))
            _, _, se = judge(oracle, params, n, bits, None)
            cov["samples"].append({"params(mn,mx,ms,im,is,mode)": list(params),
                                   "stream": stream_str(n, bits), "tokens": se})
    return {"cov": cov, "viol": viol, "nviol": nviol}


# ---------------------------------------------------------------------------
# COVER stage (C04 and friends): closure of RefTok + transition cover


def reftok_closure(mn, mx, ms, mode):
    """BFS over RefTok's abstract states; returns {key: access stream (list of bool)}."""
    from collections import deque

    def build(hist):
        r = tm.RefTok(mn, mx, ms, mode)
        for v in hist:
            r.step(v)
        return r

    seen = {build([]).key(): []}
    frontier = deque([[]])
    ntrans = 0
    while frontier:
        hist = frontier.popleft()
        for v in (False, True):
            nxt = build(hist + [v])
            ntrans += 1
            k = nxt.key()
            if k not in seen:
                seen[k] = hist + [v]
                frontier.append(hist + [v])
    return seen, ntrans


def work_cover(task):
    """Worker: for each tuple (im <= 1) replay access(s).x.w for every reachable
    RefTok transition (s, x) and every suffix |w| <= d against the real tokenizer."""
    oracle, tuples, d = task
    cov = {"evaluations": 0, "distinct_nontrivial": 0, "traces_validated_against_impl": 0,
           "states": 0, "transitions": 0, "samples": [], "max_access_len": 0}
    viol = []
    nviol = 0
    suffixes = [list(w) for k in range(d + 1) for w in itertools.product((False, True), repeat=k)]
    for params in tuples:
        mn, mx, ms, im, is_, mode = params
        acc, ntrans = reftok_closure(mn, mx, ms, mode)
        cov["states"] += len(acc)
        cov["transitions"] += ntrans
        per_tuple = 0
        done = set()
        for key, a in acc.items():
            cov["max_access_len"] = max(cov["max_access_len"], len(a))
            for x in (False, True):
                for w in suffixes:
                    st = a + [x] + w
                    n = len(st)
                    bits = sum(1 << i for i, v in enumerate(st) if v)
                    if (n, bits) in done:
                        continue
                    done.add((n, bits))
                    msg, nontrivial, se = judge(oracle, params, n, bits, None)
                    if msg is None and oracle == "C04":
                        rt = tm.reftok_run(st, mn, mx, ms, mode)
                        if rt != se:
                            msg = "RefTok gives %r, tokenizer %r" % (rt, se)
                    cov["evaluations"] += 1
                    cov["traces_validated_against_impl"] += 1
                    if nontrivial:
                        cov["distinct_nontrivial"] += 1
                    if msg:
                        nviol += 1
                        per_tuple += 1
                        if per_tuple <= 2 and len(viol) < 40:
                            key2 = "tuple=%s stream=%s" % (",".join(map(str, params)), stream_str(n, bits))
                            viol.append((key2, msg, {"kind": "tok", "oracle": oracle, "params": list(params),
                                                     "stream": stream_str(n, bits)}))
        if len(cov["samples"]) < 1:
            k = max(acc, key=lambda k: len(acc[k]))
            cov["samples"].append({"params": list(params), "reftok_state": list(k),
                                   "access_stream": tm.show(acc[k])})
    cov["max_access_len"] = {"max": cov.pop("max_access_len")}
    return {"cov": cov, "viol": viol, "nviol": nviol}


def long_streams(n):
    """Deterministic long streams: every period word of length <= 4 repeated to n frames, runs of
    growing length, and long bursts separated by long silences."""
    out = []
    for k in range(1, 5):
        for bits in range(1 << k):
            w = [bool((bits >> i) & 1) for i in range(k)]
            out.append((w * (n // k + 1))[:n])
    grow = []
    k = 1
    while len(grow) < n:
        grow += [True] * k + [False] * k
        k += 1
    out.append(grow[:n])
    out.append(([True] * 37 + [False] * 19) * (n // 56 + 1))
    out.append(([False] * 23 + [True] * 101 + [False] * 3 + [True]) * (n // 128 + 1))
    return [w[:n] for w in out]


def boundary_streams():
    """Stream lengths around powers of two, ending inside an event, inside tolerated silence, and in silence;
    silence runs around 128 / 256 inside an event."""
    out = []
    for n in (127, 128, 129, 255, 256, 257, 511, 512, 513, 1023, 1024, 1025):
        out.append([True] * n)
        out.append(([False] * 3 + [True] * 9) * (n // 12 + 1))
        out.append(([True] * 5 + [False] * 2) * (n // 7 + 1))
        out[-2] = out[-2][:n]
        out[-1] = out[-1][:n]
        out.append(([False] * 2 + [True] * (n - 2)))
    for run in (127, 128, 129, 140, 255, 256, 257):
        out.append([False] + [True] * 5 + [False] * run + [True] * 5 + [False] * run + [True] * 3)
        out.append([True] * 3 + [False] * (run + 1) + [True] * 3)
    return out


def phase_streams():
    """A long valid run (cut several times at max_length) followed by a long silence, started at every
    offset 0..135: every alignment of the cuts and of the silence with block sizes up to 128 frames."""
    out = []
    for p in range(0, 136):
        out.append([False] * p + [True] * 24 + [False] * 80)
        if p % 3 == 0:
            out.append([False] * p + [True] * 7 + [False] * 2 + [True] * 9 + [False] * 70 + [True] * 3)
    return out


def phase_tuples():
    out = []
    for (mn, mx, ms) in ((1, 8, 3), (2, 5, 2), (1, 6, 1), (3, 8, 0), (1, 24, 5)):
        for mode in tm.MODES:
            out.append((mn, mx, ms, 0, 0, mode))
        out.append((mn, mx, ms, 2, 1, 0))
    return out


def boundary_tuples():
    out = []
    for (mn, mx, ms) in ((1, 400, 150), (1, 300, 129), (5, 1030, 257), (1, 130, 128), (3, 64, 10), (1, 257, 0), (2, 128, 127)):
        for im, is_ in ((0, 0), (2, 1)):
            for mode in tm.MODES:
                out.append((mn, mx, ms, im, is_, mode))
    return out


def work_long(task):
    """Large-scale rows (directed, not exhaustive): long streams x large max_length tuples."""
    oracle, tuples, n = task
    cov = {"evaluations": 0, "distinct_nontrivial": 0, "traces_validated_against_impl": 0, "large_rows_not_exhaustive": 0,
           "samples": []}
    viol = []
    streams = long_streams(n) if n > 0 else (boundary_streams() if n == 0 else phase_streams())
    n = max(len(w) for w in streams)
    global _FR
    if len(_FR) < n + 1:
        _FR = [((i, False), (i, True)) for i in range(n + 1)]
    try:
        import numpy as np
    except ImportError:
        np = None
    tuples = list(tuples)
    if np is not None:
        # the same tuples given as fixed-width numpy integers (positions on long streams exceed their range)
        extra = []
        for t in tuples[:: max(1, len(tuples) // 6)]:
            for ty in (np.int8, np.uint8, np.int16):
                if max(t[:3]) <= np.iinfo(ty).max and min(t[:3]) >= np.iinfo(ty).min:
                    extra.append(tuple(ty(x) for x in t[:5]) + (t[5],))
        tuples += extra
    for params in tuples:
        for fl in streams:
            nn = len(fl)
            bits = 0
            for i, v in enumerate(fl):
                if v:
                    bits |= 1 << i
            memo = None
            msg, nontrivial, se = judge(oracle, params, nn, bits, memo, 0)
            if msg is None:
                # the list mode must deliver the same tokens on long streams too
                lst = [(a, b) for _, a, b in run_list(params, frames_of(nn, bits))]
                if lst != se:
                    msg = "list mode gives %d tokens (last %r), generator mode %d tokens (last %r)" % (
                        len(lst), lst[-1:] , len(se), se[-1:])
            cov["evaluations"] += 1
            cov["large_rows_not_exhaustive"] += 1
            cov["traces_validated_against_impl"] += 1
            if nontrivial:
                cov["distinct_nontrivial"] += 1
            if msg and len(viol) < 6:
                key = "tuple=%s long-stream=%s...(%d frames)" % (",".join(map(str, params)), stream_str(min(nn, 24), bits), nn)
                viol.append((key, msg, {"kind": "tok", "oracle": oracle, "params": list(params), "stream": stream_str(nn, bits)}))
    return {"cov": cov, "viol": viol}


def long_tuples():
    out = []
    for mx in (17, 33, 64, 100):
        for mn in (1, 16, mx):
            if mn > mx:
                continue
            for ms in (0, 5, 16, mx - 1):
                if ms >= mx:
                    continue
                for im, is_ in ((0, 0), (3, 2)):
                    for mode in tm.MODES:
                        out.append((mn, mx, ms, im, is_, mode))
    return out


def work_reuse(task):
    """The property's own oracle applied to a tokenizer that was used before (the statements quantify over all
    streams whatever the tokenizer did earlier): every kind of earlier use (complete, abandoned / kept / pre-requested
    generator, run cut short by an exception) on every short first stream, then every short second stream."""
    from . import chk_reuse as cr

    oracle, tuples, L1, L2 = task
    ST = _auditok()["ST"]
    cov = {"evaluations": 0, "distinct_nontrivial": 0, "traces_validated_against_impl": 0, "reused_tokenizer_runs": 0, "samples": []}
    viol = []
    nviol = 0
    for params in tuples:
        mn, mx, ms, im, is_, mode = params
        seen = set()
        for n1 in range(L1 + 1):
            for b1 in range(1 << n1):
                f1 = frames_of(n1, b1)
                ntok = len(ST(_valid_tuple, *params).tokenize(Src(f1)))
                for use in cr.uses_of(ntok, n1) + [("pre_gen",)]:
                    tok0 = cr.make_tok(ST, params)
                    if use[0] != "pre_gen":
                        cr.apply_use(tok0, use, f1)
                    sig = (use[0] == "pre_gen", cr.leftover_signature(tok0)) if use[0] != "pre_gen" else ("pre", n1, b1)
                    if sig in seen:
                        continue
                    seen.add(sig)
                    for n2 in range(L2 + 1):
                        for b2 in range(1 << n2):
                            f2 = frames_of(n2, b2)
                            fl2 = flags_of(n2, b2)
                            tok = cr.make_tok(ST, params)
                            if use[0] == "pre_gen":
                                pending = tok.tokenize(Src(f2), generator=True)
                                cr.apply_use(tok, ("list",), f1)
                                toks = list(pending)
                            else:
                                cr.apply_use(tok, use, f1)
                                toks = tok.tokenize(Src(f2))
                            cov["evaluations"] += 1
                            cov["reused_tokenizer_runs"] += 1
                            cov["traces_validated_against_impl"] += 1
                            if toks:
                                cov["distinct_nontrivial"] += 1
                            if oracle == "C01":
                                msg = tm.check_c01(f2, toks)
                            elif oracle == "C02":
                                msg = tm.check_c02(toks, mn, mx, mode)
                            elif oracle == "C03":
                                msg = tm.check_c03([([f[1] for f in d], a, b) for d, a, b in toks], mn, mx, ms, im, is_, mode)
                            elif oracle == "C04":
                                se = [(a, b) for _, a, b in toks]
                                exp = tm.segment(fl2, mn, mx, ms, mode)
                                msg = None if se == exp else "delivered %r, greedy segmentation is %r" % (se, exp)
                            else:
                                msg = None
                            if msg:
                                nviol += 1
                                if len(viol) < 6:
                                    key = "tuple=%s earlier=%s use=%s stream=%s" % (",".join(map(str, params)), stream_str(n1, b1),
                                                                                   "/".join(map(str, use)), stream_str(n2, b2))
                                    viol.append((key, "tokenizer used before (%s on %s): %s" % ("/".join(map(str, use)), stream_str(n1, b1) or "-", msg),
                                                 {"kind": "tokreuse", "oracle": oracle, "params": list(params), "first": stream_str(n1, b1),
                                                  "use": list(use), "stream": stream_str(n2, b2)}))
    return {"cov": cov, "viol": viol, "nviol": nviol}


SIBLING_TUPLES = [(1, 1, 0, 0, 0, 0), (2, 3, 1, 0, 0, 4), (3, 3, 2, 2, 1, 6), (1, 2, -1, 0, 0, 2), (2, 2, 0, 1, 0, 0)]


def _construct(ST, params, style):
    """Three ways of writing the same constructor call (the statements speak of parameter tuples, not spellings)."""
    mn, mx, ms, im, is_, mode = params
    if style == 1 and (im, is_, mode) == (0, 0, 0):
        return ST(_valid_tuple, mn, mx, ms)  # documented defaults: init_min=0, init_max_silence=0, mode=0
    if style == 3:
        return ST(_valid_tuple, float(mn), float(mx), float(ms), float(im), float(is_), mode)  # whole numbers given as floats
    if style == 2:
        return ST(validator=_valid_tuple, min_length=mn, max_length=mx, max_continuous_silence=ms, init_min=im,
                  init_max_silence=is_, mode=mode)
    return ST(_valid_tuple, mn, mx, ms, im, is_, mode)


def _oracle_msg(oracle, params, frames, flags, toks):
    mn, mx, ms, im, is_, mode = params
    if oracle == "C01":
        return tm.check_c01(frames, toks)
    if oracle == "C02":
        return tm.check_c02(toks, mn, mx, mode)
    if oracle == "C03":
        return tm.check_c03([([f[1] for f in d], a, b) for d, a, b in toks], mn, mx, ms, im, is_, mode)
    if oracle == "C04":
        if im > 1:
            return None
        se = [(a, b) for _, a, b in toks]
        exp = tm.segment(flags, mn, mx, ms, mode)
        return None if se == exp else "delivered %r, greedy segmentation is %r" % (se, exp)
    return None


def work_siblings(task):
    """Several tokenizers alive at once: tokenizer A (tuple P) is constructed, then B (tuple Q), and both are stepped
    alternately over the same stream (all streams up to L; every alternation pattern 'A first' / 'B first' / A after B
    finished / B constructed while A is half-way); each one's tokens are judged by the property's oracle for its own tuple."""
    oracle, tuples, L = task
    ST = _auditok()["ST"]
    cov = {"evaluations": 0, "distinct_nontrivial": 0, "traces_validated_against_impl": 0, "sibling_tokenizer_runs": 0, "samples": []}
    viol = []
    nviol = 0
    for params in tuples:
        for qi, q in enumerate(SIBLING_TUPLES):
            if q == tuple(params):
                continue
            for n in range(L + 1):
                for bits in range(1 << n):
                    fr = frames_of(n, bits)
                    fl = flags_of(n, bits)
                    for pattern in range(4):
                        style = (bits + qi + pattern) % 4
                        a = _construct(ST, params, style)
                        if pattern == 3:
                            ga = a.tokenize(Src(fr), generator=True)
                            ta = list(itertools.islice(ga, 1))
                            b = _construct(ST, q, 0)
                            ta += list(ga)
                            tb = b.tokenize(Src(fr))
                        else:
                            b = _construct(ST, q, (style + 1) % 4)
                            if pattern == 2:
                                tb = b.tokenize(Src(fr))
                                ta = a.tokenize(Src(fr))
                            else:
                                gens = [a.tokenize(Src(fr), generator=True), b.tokenize(Src(fr), generator=True)]
                                outs = [[], []]
                                live = [True, True]
                                k = pattern  # who moves first
                                while live[0] or live[1]:
                                    if live[k]:
                                        try:
                                            outs[k].append(next(gens[k]))
                                        except StopIteration:
                                            live[k] = False
                                    k ^= 1
                                ta, tb = outs
                        cov["evaluations"] += 2
                        cov["sibling_tokenizer_runs"] += 2
                        cov["traces_validated_against_impl"] += 2
                        cov["distinct_nontrivial"] += bool(ta) + bool(tb)
                        for who, pp, toks in (("first-constructed", params, ta), ("second-constructed", q, tb)):
                            msg = _oracle_msg(oracle, pp, fr, fl, toks)
                            if msg:
                                nviol += 1
                                if len(viol) < 6:
                                    key = "siblings=%s|%s pattern=%d stream=%s" % (",".join(map(str, params)), ",".join(map(str, q)), pattern, stream_str(n, bits))
                                    viol.append((key, "two tokenizers alive (%s and %s, alternation %d), the %s one on %s: %s"
                                                 % (params, q, pattern, who, stream_str(n, bits) or "-", msg),
                                                 {"kind": "siblings", "oracle": oracle, "params": list(params), "stream": stream_str(n, bits)}))
    return {"cov": cov, "viol": viol, "nviol": nviol}


def work_float_lengths(task):
    """C01 quantifies over every parameter combination the constructor accepts - it accepts non-integral lengths
    (max_length = max_dur / window computed by a caller without rounding): tokens must still be exact slices."""
    tuples, L = task
    ST = _auditok()["ST"]
    cov = {"evaluations": 0, "distinct_nontrivial": 0, "traces_validated_against_impl": 0, "float_length_runs": 0, "samples": []}
    viol = []
    for (mn, mx, ms, im, is_, mode) in tuples:
        for fmn, fmx, fms in ((mn, mx + 0.5, ms), (mn + 0.5 if mn < mx else mn, mx + 0.25, ms), (float(mn), float(mx), float(ms))):
            for n in range(L + 1):
                for bits in range(1 << n):
                    fr = frames_of(n, bits)
                    cov["evaluations"] += 1
                    cov["float_length_runs"] += 1
                    cov["traces_validated_against_impl"] += 1
                    try:
                        toks = ST(_valid_tuple, fmn, fmx, fms, im, is_, mode).tokenize(Src(fr))
                        msg = tm.check_c01(fr, toks)
                    except Exception as exc:
                        toks, msg = [], "raised %r" % (exc,)
                    cov["distinct_nontrivial"] += bool(toks)
                    if msg and len(viol) < 4:
                        viol.append(("float-lengths=%r,%r,%r,%d,%d,%d stream=%s" % (fmn, fmx, fms, im, is_, mode, stream_str(n, bits)),
                                     "lengths (%r, %r, %r) on %s: %s" % (fmn, fmx, fms, stream_str(n, bits) or "-", msg),
                                     {"kind": "floatlen", "params": [mn, mx, ms, im, is_, mode], "stream": stream_str(n, bits)}))
    return {"cov": cov, "viol": viol}


class TransientSrc(Src):
    """A live source whose k-th read fails once with an operating-system error (EINTR / EAGAIN / a time-out) without
    consuming a frame, and which then goes on delivering."""

    __slots__ = ("k", "exc", "calls")

    def __init__(self, frames, k, exc):
        super().__init__(frames)
        self.k, self.exc, self.calls = k, exc, 0

    def read(self):
        self.calls += 1
        if self.calls == self.k:
            raise self.exc("transient failure of read #%d (injected)" % self.k)
        return super().read()


def work_transient(task):
    """Whether a transient read failure is passed on to the caller or retried is the library's choice; if the run goes
    on, the tokens are still judged by the property's oracle over the frames that were actually delivered."""
    oracle, tuples, L = task
    ST = _auditok()["ST"]
    cov = {"evaluations": 0, "distinct_nontrivial": 0, "traces_validated_against_impl": 0, "transient_fault_runs": 0, "samples": []}
    viol = []
    for params in tuples:
        for n in range(1, L + 1):
            for bits in range(1 << n):
                fr = frames_of(n, bits)
                flags = flags_of(n, bits)
                for k in range(1, n + 2):
                    for exc in (InterruptedError, BlockingIOError, TimeoutError):
                        cov["evaluations"] += 1
                        cov["transient_fault_runs"] += 1
                        try:
                            toks = ST(_valid_tuple, *params).tokenize(TransientSrc(fr, k, exc))
                        except OSError:
                            continue  # passed on to the caller: nothing was delivered, nothing to judge
                        except Exception as e_:
                            toks, msg = [], "raised %r" % (e_,)
                        else:
                            msg = _oracle_msg(oracle, params, fr, flags, toks)
                        cov["traces_validated_against_impl"] += 1
                        cov["distinct_nontrivial"] += bool(toks)
                        if msg and len(viol) < 3:
                            viol.append(("transient-fault=%s read#%d params=%r stream=%s" % (exc.__name__, k, params, stream_str(n, bits)),
                                         "%s at read #%d of %s, run continued: %s" % (exc.__name__, k, stream_str(n, bits), msg),
                                         {"kind": "transient", "oracle": oracle, "params": list(params), "stream": stream_str(n, bits)}))
    return {"cov": cov, "viol": viol}


def work_model_selfcheck(task):
    """RefTok (incremental) against segment() (declarative) - model vs model."""
    tuples, L = task
    bad = []
    n_cases = 0
    for params in tuples:
        mn, mx, ms, im, is_, mode = params
        for n in range(L + 1):
            for bits in range(1 << n):
                fl = flags_of(n, bits)
                n_cases += 1
                if tm.reftok_run(fl, mn, mx, ms, mode) != tm.segment(fl, mn, mx, ms, mode):
                    bad.append((params, stream_str(n, bits)))
                    if len(bad) > 3:
                        return n_cases, bad
    return n_cases, bad


# ---------------------------------------------------------------------------
# constructor accept/reject table (C02)


def ctor_table(rep):
    ST = _auditok()["ST"]
    n = 0
    acc = 0
    for mn, mx in itertools.product(range(-1, 7), repeat=2):
        for ms in range(-2, 7):
            for im in range(-1, 7):
                for is_ in range(-1, 4):
                    for mode in range(-1, 9):
                        n += 1
                        want = tm.accepted(mn, mx, ms, im, is_, mode)
                        try:
                            ST(_valid_tuple, mn, mx, ms, im, is_, mode)
                            got = True
                            err = None
                        except ValueError:
                            got = False
                            err = None
                        except Exception as exc:
                            got = None
                            err = exc
                        acc += bool(got)
                        if got is not want:
                            key = "ctor=%s" % ",".join(map(str, (mn, mx, ms, im, is_, mode)))
                            what = "constructor %s, statement says %s" % (
                                "accepted" if got else ("raised %r" % err if err else "raised ValueError"),
                                "accept" if want else "ValueError")
                            rep.violation(key, what, {"kind": "ctor", "params": [mn, mx, ms, im, is_, mode]})
    # the documented defaults (init_min=0, init_max_silence=0, mode=0) written by omission, and keyword spelling
    for mn, mx in itertools.product(range(-1, 7), repeat=2):
        for ms in range(-2, 7):
            want = tm.accepted(mn, mx, ms, 0, 0, 0)
            for style in (1, 2):
                n += 1
                try:
                    _construct(ST, (mn, mx, ms, 0, 0, 0), style)
                    got, err = True, None
                except ValueError:
                    got, err = False, None
                except Exception as exc:
                    got, err = None, exc
                acc += bool(got)
                if got is not want:
                    key = "ctor=%s style=%d" % (",".join(map(str, (mn, mx, ms))), style)
                    what = "constructor (%s) %s, statement says %s" % (
                        "optional arguments omitted" if style == 1 else "keyword arguments",
                        "accepted" if got else ("raised %r" % err if err else "raised ValueError"), "accept" if want else "ValueError")
                    rep.violation(key, what, {"kind": "ctor", "params": [mn, mx, ms, 0, 0, 0], "style": style})
    rep.cov["ctor_table"] = {"tuples": n, "accepted": acc}
    rep.add("evaluations", n)
    rep.add("distinct_nontrivial", acc)
    # non-callable / non-DataValidator validators are a TypeError, not part of C02


# ---------------------------------------------------------------------------
# entry points


def _chunks(seq, k):
    seq = list(seq)
    size = max(1, (len(seq) + k - 1) // k)
    return [seq[i : i + size] for i in range(0, len(seq), size)]


def _interleave(seq, k):
    """k chunks with a round-robin deal, so expensive tuples are spread out."""
    seq = list(seq)
    return [seq[i::k] for i in range(k) if seq[i::k]]


def plan(tier, seed):
    """Returns (enum stages [(tuples, L)], cover stages [(tuples, d)])."""
    g4 = tm.grid(4)
    if tier == "quick":
        g5 = [t for t in tm.grid(5) if t[1] == 5]
        stripe = [t for i, t in enumerate(g5) if i % 8 == seed % 8]
        enum = [(g4, 10), (stripe, 11)]
        cover = [([t for t in tm.grid(7, im_max=1) if t[1] >= 5], 3)]
    else:
        g6a = tm.grid(6, im_max=1)
        g5b = [t for t in tm.grid(5) if t[3] >= 2]
        g6b = [t for t in tm.grid(6) if t[3] >= 2 and t[1] == 6]
        enum = [(g6a, 14), (g5b, 13), (g6b, 11)]
        cover = [([t for t in tm.grid(10, im_max=1) if t[1] >= 5], 4)]
    return enum, cover


def run(prop, tier):
    rep = common.Report(prop, tier, "bounded-exhaustive enumeration of (parameter tuple x stream) executions of the "
                        "real tokenizer against a reference model; explicit-state closure of the reference "
                        "automaton with a transition cover replayed on the implementation")
    seed = common.seed()
    enum, cover = plan(tier, seed)
    if prop != "C04":
        cover = [] if prop in ("C08",) else cover
    rep.cov["rule"] = (
        "cases = every accepted (min_length,max_length,max_continuous_silence,init_min,init_max_silence,mode) tuple of the "
        "grid x every A/a stream up to the length bound, enumerated shortest first; a case is non-trivial when the "
        "tokenizer delivered at least one token; distinct by construction (no case is generated twice within a stage). "
        "states/transitions = distinct (tuple, tokenizer control signature[, frame validity]) pairs seen between frames "
        "on the longest streams, plus RefTok states/transitions in the cover stage")
    rep.cov["bounds"] = {
        "enum": [{"tuples": len(t), "max_stream_len": L} for t, L in enum],
        "cover": [{"tuples": len(t), "suffix_depth": d, "max_length_up_to": max(x[1] for x in t)} for t, d in cover],
    }
    if prop == "C02":
        ctor_table(rep)
    if prop == "C08":
        # the split() half of the statement: a region is yielded before more input is pulled
        from . import chk_split

        chk_split.split_laziness(rep, 7 if tier == "quick" else 9)
    # model self-check (only matters for the oracles that use the models)
    if prop == "C04":
        mt = [t for t in tm.grid(4, im_max=0)]
        ncases = 0
        for n_cases, bad in common.pmap(work_model_selfcheck, [(c, 10 if tier == "quick" else 12) for c in _interleave(mt, common.NPROC)], guard=False):
            ncases += n_cases
            if bad:
                print("HARNESS-ERROR: RefTok and segment() disagree on %r" % (bad[:2],))
                raise SystemExit(2)
        rep.cov["model_selfcheck_cases"] = ncases
    tasks = []
    for tuples, L in enum:
        if prop == "C04":
            tuples = [t for t in tuples if t[3] <= 1]
        for c in _interleave(tuples, common.NPROC * 4):
            tasks.append(("enum", (prop, c, L, True)))
    for tuples, d in cover:
        for c in _interleave(tuples, common.NPROC * 4):
            tasks.append(("cover", (prop, c, d)))
    if prop in ("C01", "C02", "C03", "C04"):
        rt = [t for t in tm.grid(3) if prop != "C04" or t[3] <= 1]
        if tier == "quick":
            rt = [t for i, t in enumerate(rt) if t[1] == 3 or i % 2 == 0]
        L1, L2 = (5, 4) if tier == "quick" else (7, 6)
        for c in _interleave(rt, common.NPROC * 2):
            tasks.append(("reuse", (prop, c, L1, L2)))
        for c in _interleave(rt, common.NPROC * 2):
            tasks.append(("siblings", (prop, c, 5 if tier == "quick" else 8)))
    if prop == "C01":
        ft = [t for t in tm.grid(3) if t[4] == 0]
        for c in _interleave(ft, common.NPROC):
            tasks.append(("floatlen", (c, 7 if tier == "quick" else 10)))
    # a source whose k-th read fails once with an operating-system error and then goes on delivering
    tt = [t for t in tm.grid(3) if (prop != "C04" or t[3] <= 1)][:: (3 if tier == "quick" else 1)]
    for c in _interleave(tt, common.NPROC):
        tasks.append(("transient", (prop, c, 5 if tier == "quick" else 7)))
    lt = [t for t in long_tuples() if prop != "C04" or t[3] <= 1]
    for c in _interleave(lt, common.NPROC * 2):
        tasks.append(("long", (prop, c, 300 if tier == "quick" else 1000)))
    bt = [t for t in boundary_tuples() if prop != "C04" or t[3] <= 1]
    for c in _interleave(bt, common.NPROC * 2):
        tasks.append(("long", (prop, c, 0)))
    pt = [t for t in phase_tuples() if prop != "C04" or t[3] <= 1]
    for c in _interleave(pt, common.NPROC):
        tasks.append(("long", (prop, c, -1)))
    for part in common.pmap(_dispatch, tasks):
        rep.merge(part)
    rep.assumptions += [
        "streams longer than the bound reach no tokenizer situation that a shorter stream does not (argued by the "
        "closure of the reference automaton for init_min<=1; for init_min>1 by the bounded counters)",
        "frames are (index, flag) tuples judged by a plain callable; C01 additionally rotates string and PCM frames",
    ]
    return rep.finish()


def _dispatch(t):
    kind, task = t
    if kind == "enum":
        return work_enum(task)
    if kind == "long":
        return work_long(task)
    if kind == "reuse":
        return work_reuse(task)
    if kind == "siblings":
        return work_siblings(task)
    if kind == "floatlen":
        return work_float_lengths(task)
    if kind == "transient":
        return work_transient(task)
    return work_cover(task)


def replay(case):
    """Re-execute one recorded case; returns complaint or None."""
    if case["kind"] == "tokreuse":
        part = work_reuse((case["oracle"], [tuple(case["params"])], len(case["first"]), len(case["stream"])))
        return part["viol"][0][1] if part["viol"] else None
    if case["kind"] == "transient":
        part = work_transient((case["oracle"], [tuple(case["params"])], len(case["stream"])))
        return part["viol"][0][1] if part["viol"] else None
    if case["kind"] == "floatlen":
        part = work_float_lengths(([tuple(case["params"])], len(case["stream"])))
        return part["viol"][0][1] if part["viol"] else None
    if case["kind"] == "siblings":
        part = work_siblings((case["oracle"], [tuple(case["params"])], len(case["stream"])))
        return part["viol"][0][1] if part["viol"] else None
    if case["kind"] == "lazy":
        from . import chk_split

        return chk_split.replay(case)
    if case["kind"] == "ctor":
        ST = _auditok()["ST"]
        p = case["params"]
        want = tm.accepted(*p)
        try:
            _construct(ST, tuple(p), case.get("style", 0))
            got = True
        except ValueError:
            got = False
        except Exception:
            got = None
        return None if got is want else "constructor accept=%r, statement says %r" % (got, want)
    params = tuple(case["params"])
    fl = tm.parse(case["stream"])
    n = len(fl)
    bits = sum(1 << i for i, v in enumerate(fl) if v)
    memo = None
    if case["oracle"] == "C08":
        memo = {}
        for k in range(n):
            judge("C08", params, k, bits & ((1 << k) - 1), memo)
    msg, _, _ = judge(case["oracle"], params, n, bits, memo, variant=0)
    if msg is None and case["oracle"] == "C08":
        for v in (3, 4, 5, 6):
            msg = msg or judge("C08", params, n, bits, None, variant=v)[0]
    if msg is None and case["oracle"] == "C01":
        for v in (1, 2, 3, 4, 5, 6, 7):
            msg = msg or judge("C01", params, n, bits, None, variant=v)[0]
    if msg is None and case["oracle"] == "C04":
        for v in (3, 4, 5, 6, 7):
            msg = msg or judge("C04", params, n, bits, None, variant=v)[0]
    if msg is None and case["oracle"] == "C04":
        se = judge("C04", params, n, bits, None)[2]
        rt = tm.reftok_run(fl, params[0], params[1], params[2], params[5])
        if rt != se:
            msg = "RefTok gives %r, tokenizer %r" % (rt, se)
    return msg

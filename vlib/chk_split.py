"""C05 (regions are the input's own bytes at the reported times), C06 (durations are
counted in analysis windows), C09 (same audio, same result) and the split() half
of C08 (lazy reading) - bounded-exhaustive enumeration against composed models."""

import io
import itertools
import math
import os
import sys
import wave
from decimal import Decimal
from fractions import Fraction
from pathlib import Path

from . import common
from . import tokmodel as tm

_L = {}


def lib():
    if not _L:
        common.import_auditok()
        import auditok
        from auditok import core, util
        from auditok import io as aio

        _L.update(auditok=auditok, core=core, util=util, io=aio, AR=core.AudioRegion)
        # AudioRegion.split_and_plot (alias splitp) splits, draws, and returns the regions: the drawing is stubbed out
        core.plot = lambda *a, **k: None
    return _L


def close(a, b):
    return abs(a - b) <= 1e-9 * max(1.0, abs(a), abs(b))


# ---------------------------------------------------------------------------
# position-coded audio


def coded(flags_per_window, W, sw, ch, tail=0, tail_flag=False):
    """Each window W samples (last one `tail` samples if tail>0).  Loud samples have a
    large magnitude, every sample carries its index in the low bits, channels differ."""
    out = bytearray()
    idx = 0
    wins = [(f, W) for f in flags_per_window]
    if tail:
        wins.append((tail_flag, tail))
    for f, k in wins:
        for _ in range(k):
            for c in range(ch):
                if sw == 1:
                    v = (100 + (idx + c) % 27) if f else ((idx + c) % 3)
                elif sw == 4:
                    v = (2 ** 31 - 1 - (idx * 3 + c) % 9000) if f else ((idx + c) % 5)  # full scale: sums of squares beyond 2^63
                else:
                    v = (20000 + (idx * 3 + c) % 9000) if f else ((idx + c) % 5)
                if (idx + c) % 2 and f:
                    v = -v
                out += int(v).to_bytes(sw, "little", signed=True)
            idx += 1
    return bytes(out)


def eth_for(sw):
    return 30 if sw == 1 else 50


# ---------------------------------------------------------------------------
# C06 model: exact window counts from the decimal literals


def q_int(q):
    """'quotients within 1e-9 of an integer count as that integer'"""
    n = round(q)
    if abs(q - n) <= Fraction(1, 10 ** 9):
        return Fraction(n)
    return q


def counts(min_dur, max_dur, max_silence, w):
    """All Fractions.  Returns (mn, mx, ms)."""
    mn = math.ceil(q_int(min_dur / w))
    mx = math.floor(q_int(max_dur / w))
    ms = math.floor(q_int(max_silence / w)) if max_silence != 0 else 0
    return mn, mx, ms


def ambiguous(q):
    """Quotients between 1e-10 and 1e-9 of an integer: statement and code tolerances differ."""
    n = round(q)
    d = abs(q - n)
    return d != 0 and d <= Fraction(1, 10 ** 8)


# ---------------------------------------------------------------------------
# C05


def c05_case(sw, ch, rate, W, aw, flags, tail, tail_flag, mn, mx, ms, mode, as_region):
    """One split() call compared with the composed model.  Returns complaint or None."""
    L = lib()
    data = coded(flags, W, sw, ch, tail, tail_flag)
    bps = sw * ch
    allflags = list(flags) + ([tail_flag] if tail else [])
    extra_kw = {}
    if as_region == 7:
        # max_read ending inside a window: the input is its first round(t*rate) samples, nothing beyond is read or reported
        total = len(data) // bps
        cutoff = total - max(1, W // 2)
        t = cutoff / rate
        if cutoff < 1 or round(t * rate) != cutoff:
            as_region = 0
        else:
            extra_kw = {"max_read": t}
            data_full, data = data, data[: cutoff * bps]
            allflags = allflags[: (cutoff + W - 1) // W]
    exp = tm.segment(allflags, mn, mx, ms, mode)
    kw = dict(min_dur=float(mn * Fraction(aw)), max_dur=float(mx * Fraction(aw)), max_silence=float(ms * Fraction(aw)),
              drop_trailing_silence=bool(mode & 4), strict_min_dur=bool(mode & 2), analysis_window=float(aw),
              energy_threshold=eth_for(sw))
    try:
        if as_region == 2:
            # a region that itself carries a start time (e.g. one yielded by an earlier split)
            regs = list(L["core"].split(L["AR"](data, rate, sw, ch, 2.5), **kw))
        elif as_region == 8:
            # the third documented way of splitting a region: split_and_plot / splitp (drawing stubbed out)
            reg_ = L["AR"](data, rate, sw, ch)
            regs = list((reg_.splitp if mn % 2 else reg_.split_and_plot)(show=False, **kw))
        elif as_region == 6:
            # ... split again with its own method (two-pass segmentation): times count from the beginning of THAT input
            regs = list(L["AR"](data, rate, sw, ch, 2.5).split(**kw))
        elif as_region in (3, 4, 5):
            # standard input: everything available at once, or trickling in pieces that ignore window boundaries
            # (5: through a real pipe, i.e. a stdin that has a file descriptor)
            old = sys.stdin
            chunks = [max(1, W * bps - 1), 2]
            sys.stdin = PipeStdin(data, chunks) if as_region == 5 else FakeStdin(data, chunks if as_region == 3 else None)
            try:
                regs = list(L["core"].split("-", sr=rate, sw=sw, ch=ch, **kw))
            finally:
                if as_region == 5:
                    sys.stdin.close()
                sys.stdin = old
        elif as_region == 7:
            regs = list(L["core"].split(data_full, sr=rate, sw=sw, ch=ch, **kw, **extra_kw))
        elif as_region:
            regs = list(L["AR"](data, rate, sw, ch).split(**kw))
        else:
            regs = list(L["core"].split(data, sr=rate, sw=sw, ch=ch, **kw))
    except Exception as exc:
        return "split raised %r" % (exc,)
    if len(regs) != len(exp):
        return "split yields %d regions, model %r" % (len(regs), exp)
    wd = Fraction(W, rate)
    prev_end = -1.0
    for r, (s, e) in zip(regs, exp):
        lo = s * W * bps
        hi = min((e + 1) * W * bps, len(data))
        if r.data != data[lo:hi]:
            return "region for windows (%d,%d) does not hold input[%d:%d]" % (s, e, lo, hi)
        if (r.sampling_rate, r.sample_width, r.channels) != (rate, sw, ch):
            return "region parameters %r" % ((r.sampling_rate, r.sample_width, r.channels),)
        nsamp = (hi - lo) // bps
        if not close(r.start, float(s * wd)):
            return "start %r, window %d begins at %r" % (r.start, s, float(s * wd))
        if not close(r.duration, nsamp / rate) or not close(r.end - r.start, r.duration) or len(r) != nsamp:
            return "duration %r / end-start %r for %d samples at %d Hz" % (r.duration, r.end - r.start, nsamp, rate)
        if r.meta.start != r.start or r.meta.end != r.end:
            return "meta disagrees with start/end"
        if not (r.start > prev_end - 1e-9):
            return "regions overlap or are out of order"
        prev_end = r.end
    return None


def c05_work(task):
    sw, ch, W, rate, aw, L, tuples, stripe = task
    lib()
    cov = {"evaluations": 0, "distinct_nontrivial": 0, "samples": []}
    viol = []
    i = 0
    for n in range(L + 1):
        for bits in range(1 << n):
            flags = [bool((bits >> k) & 1) for k in range(n)]
            tails = [(0, False)] + [(t, f) for t in range(1, W) for f in (False, True)]
            for tail, tf in tails:
                for (mn, mx, ms, mode) in tuples:
                    i += 1
                    if tail and (i + stripe) % 3:
                        continue  # partial last windows: every third tuple (all tuples get every tail over the patterns)
                    cov["evaluations"] += 1
                    how = 5 if i % 40 == 7 else (6 if i % 10 == 6 else (7 if i % 10 == 3 else (8 if i % 10 == 9 else i % 5)))
                    msg = c05_case(sw, ch, rate, W, aw, flags, tail, tf, mn, mx, ms, mode, as_region=how)
                    if any(flags) or tf:
                        cov["distinct_nontrivial"] += 1
                    if msg and len(viol) < 8:
                        key = "split sw=%d ch=%d rate=%d W=%d aw=%s pattern=%s tail=%d%s tuple=%d,%d,%d,%d" % (
                            sw, ch, rate, W, aw, tm.show(flags), tail, "A" if tf else "a", mn, mx, ms, mode)
                        viol.append((key, msg, {"kind": "c05", "sw": sw, "ch": ch, "rate": rate, "W": W, "aw": str(aw),
                                                "flags": tm.show(flags), "tail": tail, "tail_flag": tf,
                                                "tuple": [mn, mx, ms, mode], "as_region": how}))
    cov["samples"].append({"sw": sw, "ch": ch, "samples_per_window": W, "rate": rate, "analysis_window": str(aw),
                           "patterns": "all <=%d windows + partial tails" % L})
    return {"cov": cov, "viol": viol}


def merges(a, b):
    """All interleavings of a steps of generator 0 and b steps of generator 1."""
    if a == 0:
        yield (1,) * b
        return
    if b == 0:
        yield (0,) * a
        return
    for m in merges(a - 1, b):
        yield (0,) + m
    for m in merges(a, b - 1):
        yield (1,) + m


def c05_interleaved(task):
    """Two live split() generators with the same configuration, consumed in every interleaving:
    each must still yield exactly what it yields alone (separate calls share nothing)."""
    pats, tuples = task
    L = lib()
    cov = {"evaluations": 0, "distinct_nontrivial": 0, "samples": []}
    viol = []
    sw, ch, rate, W = 2, 1, 10, 1
    for (mn, mx, ms, mode) in tuples:
        kw = dict(min_dur=mn * 0.1, max_dur=mx * 0.1, max_silence=ms * 0.1, drop_trailing_silence=bool(mode & 4),
                  strict_min_dur=bool(mode & 2), analysis_window=0.1, energy_threshold=50, sr=rate, sw=sw, ch=ch)
        solo = {}
        for p in pats:
            data = coded(tm.parse(p), W, sw, ch)
            solo[p] = [(r.start, r.data) for r in L["core"].split(data, **kw)]
        for pa, pb in itertools.product(pats, repeat=2):
            na, nb = len(solo[pa]) + 1, len(solo[pb]) + 1
            for order in merges(na, nb):
                cov["evaluations"] += 1
                gens = [L["core"].split(coded(tm.parse(pa), W, sw, ch), **kw), L["core"].split(coded(tm.parse(pb), W, sw, ch), **kw)]
                got = [[], []]
                try:
                    for g in order:
                        r = next(gens[g], None)
                        if r is not None:
                            got[g].append((r.start, r.data))
                    bad = got[0] != solo[pa] or got[1] != solo[pb]
                    msg = None if not bad else "interleaved consumption %r of split(%s) and split(%s): starts %r / %r, alone %r / %r" % (
                        order, pa, pb, [x[0] for x in got[0]], [x[0] for x in got[1]], [x[0] for x in solo[pa]], [x[0] for x in solo[pb]])
                except Exception as exc:
                    msg = "interleaved consumption raised %r" % (exc,)
                if solo[pa] and solo[pb]:
                    cov["distinct_nontrivial"] += 1
                if msg and len(viol) < 4:
                    viol.append(("interleaved a=%s b=%s order=%s tuple=%d,%d,%d,%d" % (pa, pb, "".join(map(str, order)), mn, mx, ms, mode), msg,
                                 {"kind": "c05i", "a": pa, "b": pb, "order": list(order), "tuple": [mn, mx, ms, mode]}))
    cov["samples"].append({"interleaved_pairs": len(pats) ** 2, "tuples": len(tuples)})
    return {"cov": cov, "viol": viol}


def c05_threads(task):
    """Two split() calls running in two threads at once (a thread pool over several recordings): every schedule with at
    most `bound` preemptions at line granularity inside auditok/core.py; each call still yields exactly what it yields alone."""
    pa, pb, tup, bound = task
    from . import sched

    L = lib()
    from auditok import workers as w

    sched.install()
    mn, mx, ms, mode = tup
    sw, ch, rate, W = 2, 1, 10, 1
    kw = dict(min_dur=mn * 0.1, max_dur=mx * 0.1, max_silence=ms * 0.1, drop_trailing_silence=bool(mode & 4),
              strict_min_dur=bool(mode & 2), analysis_window=0.1, energy_threshold=50, sr=rate, sw=sw, ch=ch)
    da, db = coded(tm.parse(pa), W, sw, ch), coded(tm.parse(pb), W, sw, ch)
    solo = [[(r.start, r.data) for r in L["core"].split(d, **kw)] for d in (da, db)]

    class Job(w.Worker):
        def __init__(self, data, method):
            self.data, self.method, self.res = data, method, None
            super().__init__()

        def _process_message(self, message):
            pass

        def run(self):
            if self.method:
                k2 = {k: v for k, v in kw.items() if k not in ("sr", "sw", "ch")}
                self.res = [(r.start, r.data) for r in L["core"].AudioRegion(self.data, rate, sw, ch).split(**k2)]
            else:
                self.res = [(r.start, r.data) for r in L["core"].split(self.data, **kw)]

    class Ctx:
        pass

    def make():
        ctx = Ctx()
        ctx.a, ctx.b = Job(da, False), Job(db, True)

        def main():
            ctx.a.start()
            ctx.b.start()
            ctx.a.join()
            ctx.b.join()

        return main, ctx

    def check(ex, ctx):
        if ex.outcome != "done":
            return "%s: the two splitting threads never end" % ex.outcome
        for t in ex.th:
            if t.crash is not None:
                return "a splitting thread died with %r" % (t.crash,)
        if ctx.a.res != solo[0] or ctx.b.res != solo[1]:
            return ("split(%s) and split(%s) running in two threads: starts / sizes %r and %r, alone %r and %r" % (
                pa, pb, [(x[0], len(x[1])) for x in ctx.a.res], [(x[0], len(x[1])) for x in ctx.b.res],
                [(x[0], len(x[1])) for x in solo[0]], [(x[0], len(x[1])) for x in solo[1]]))
        return None

    old = sched.TRACE_FILES[0]
    sched.TRACE_FILES[0] = ("auditok/core.py",)
    try:
        st = sched.explore(make, check, line_mode=True, preemption_bound=bound, max_seconds=120)
    finally:
        sched.TRACE_FILES[0] = old
    viol = []
    for trace, msg, labels in st.violations[:1]:
        viol.append(("two-threads a=%s b=%s tuple=%d,%d,%d,%d schedule=%s" % (pa, pb, mn, mx, ms, mode, ".".join(map(str, trace))), msg,
                     {"kind": "c05t", "a": pa, "b": pb, "tuple": [mn, mx, ms, mode], "bound": bound}))
    cov = {"evaluations": st.executions, "two_thread_schedules": st.executions, "distinct_nontrivial": st.executions}
    if st.cap_hit:
        cov["caps_hit"] = ["two splitting threads %s/%s: %s" % (pa, pb, st.cap_hit)]
        cov["exhaustive"] = False
    return {"cov": cov, "viol": viol}


def c05_long(task):
    """Large rows: long recordings (hundreds of windows), large window counts."""
    sw, ch, W, rate = task
    from .chk_tok import long_streams

    cov = {"evaluations": 0, "distinct_nontrivial": 0, "large_rows_not_exhaustive": 0, "samples": []}
    viol = []
    aw = Decimal(W) / Decimal(rate)
    for flags in long_streams(400)[::2]:
        for (mn, mx, ms, mode) in ((1, 17, 3, 0), (5, 64, 10, 4), (16, 33, 0, 2), (2, 100, 16, 6), (1, 3, 2, 0)):
            cov["evaluations"] += 1
            cov["large_rows_not_exhaustive"] += 1
            msg = c05_case(sw, ch, rate, W, aw, flags, W - 1 if W > 1 else 0, True, mn, mx, ms, mode, as_region=cov["evaluations"] % 3)
            if any(flags):
                cov["distinct_nontrivial"] += 1
            if msg and len(viol) < 4:
                key = "split-long sw=%d ch=%d rate=%d W=%d pattern=%s...(%d windows) tuple=%d,%d,%d,%d" % (
                    sw, ch, rate, W, tm.show(flags[:20]), len(flags), mn, mx, ms, mode)
                viol.append((key, msg, {"kind": "c05", "sw": sw, "ch": ch, "rate": rate, "W": W, "aw": str(aw), "flags": tm.show(flags),
                                        "tail": W - 1 if W > 1 else 0, "tail_flag": True, "tuple": [mn, mx, ms, mode],
                                        "as_region": cov["evaluations"] % 3}))
    cov["samples"].append({"long_recordings_windows": 400, "sw": sw, "ch": ch, "samples_per_window": W})
    return {"cov": cov, "viol": viol}


def c05_starts(task):
    """Long events (70 windows) starting at every window index 0..130, through every input kind, at rates
    where start*rate is not exactly representable (48 kHz / 20 ms, 100 Hz / 10 ms, 44.1 kHz / 10 ms)."""
    rate, W, aw, lo, hi = task
    cov = {"evaluations": 0, "distinct_nontrivial": 0, "large_rows_not_exhaustive": 0, "samples": []}
    viol = []
    for k in range(lo, hi):
        flags = [False] * k + [True] * 70 + [False] * 2
        for as_region in (0, 1, 2):
            cov["evaluations"] += 1
            cov["large_rows_not_exhaustive"] += 1
            cov["distinct_nontrivial"] += 1
            msg = c05_case(2, 1, rate, W, Decimal(aw), flags, 0, False, 1, 100, 0, 0, as_region=as_region)
            if msg and len(viol) < 3:
                viol.append(("split-start rate=%d W=%d start_window=%d input=%d" % (rate, W, k, as_region), msg,
                             {"kind": "c05", "sw": 2, "ch": 1, "rate": rate, "W": W, "aw": aw, "flags": tm.show(flags), "tail": 0,
                              "tail_flag": False, "tuple": [1, 100, 0, 0], "as_region": as_region}))
    cov["samples"].append({"long_event_start_windows": "%d..%d" % (lo, hi - 1), "rate": rate, "samples_per_window": W})
    return {"cov": cov, "viol": viol}


def c05_awkward(task):
    """Windows of n samples given as n / rate where the floating-point product (n / rate) * rate falls just below n: whatever
    window size the library settles on, every region must carry the input's own bytes at its reported start (window-agnostic
    oracle on position-coded audio: bytes == input[round(start*rate) ...], start*rate within 1e-6 of a whole sample)."""
    rate, count = task
    L = lib()
    cov = {"evaluations": 0, "distinct_nontrivial": 0, "large_rows_not_exhaustive": 0, "samples": []}
    viol = []
    sizes = [n for n in range(2, 4000) if int((n / rate) * rate) == n - 1][:count]
    for n in sizes:
        aw = n / rate
        layout = [(False, 3), (True, 4), (False, 3), (True, 2), (False, 2)]
        vals, i = [], 0
        for act, k in layout:
            for _ in range(k * n):
                vals.append(8000 + (i * 7919) % 20000 if act else i % 3)
                i += 1
        import struct

        data = struct.pack("<%dh" % len(vals), *vals)
        for kind in ("bytes", "region", "reader"):
            cov["evaluations"] += 1
            cov["large_rows_not_exhaustive"] += 1
            kw = dict(min_dur=aw, max_dur=100 * aw, max_silence=0, energy_threshold=50)
            try:
                if kind == "bytes":
                    regs = list(L["core"].split(data, sr=rate, sw=2, ch=1, analysis_window=aw, **kw))
                elif kind == "region":
                    regs = list(L["core"].AudioRegion(data, rate, 2, 1).split(analysis_window=aw, **kw))
                else:
                    regs = list(L["core"].split(L["util"].AudioReader(data, block_dur=aw, sr=rate, sw=2, ch=1), **kw))
                msg = None
                if len(regs) < 2:
                    msg = "%d regions for two separate bursts" % len(regs)
                for r in regs:
                    pos = r.start * rate
                    p_ = round(pos)
                    if abs(pos - p_) > 1e-6:
                        msg = "region start %r is %r samples: not a whole sample" % (r.start, pos)
                    elif bytes(r.data) != data[2 * p_ : 2 * p_ + len(r.data)]:
                        at = data.find(bytes(r.data)[:64])
                        msg = "region reported at %r s (sample %d) carries the input's bytes of sample %s" % (r.start, p_, at // 2 if at >= 0 else "?")
                    elif abs((r.end - r.start) - len(r) / rate) > 1e-9 or abs(r.duration - len(r) / rate) > 1e-9:
                        msg = "end - start %r, duration %r, %d samples at %d Hz" % (r.end - r.start, r.duration, len(r), rate)
                    if msg:
                        break
                if regs:
                    cov["distinct_nontrivial"] += 1
            except Exception as exc:
                msg = "raised %r" % (exc,)
            if msg and len(viol) < 3:
                viol.append(("awkward-window rate=%d n=%d input=%s" % (rate, n, kind),
                             "analysis window %r s = %d / %d (float product %r), input %s: %s" % (aw, n, rate, aw * rate, kind, msg),
                             {"kind": "c05a", "rate": rate, "count": count}))
    cov["samples"].append({"awkward_window_sizes": sizes, "rate": rate})
    return {"cov": cov, "viol": viol}


def tuples_g3():
    out = []
    for mx in (1, 2, 3):
        for mn in range(1, mx + 1):
            for ms in range(0, mx):
                for mode in tm.MODES:
                    out.append((mn, mx, ms, mode))
    return out


# ---------------------------------------------------------------------------
# C06


class FirstByte:
    """Cheap validator: a window is valid iff its first byte is non-zero."""

    def __call__(self, w):
        return w[0] != 0


def probe_flags(mn, mx, ms):
    """Activity pattern whose segmentation pins down mn, mx and ms."""
    sil = [False] * (ms + 2)
    f = []
    for b in (mn - 1, mn, mn + 1):
        if b > 0:
            f += [True] * b + sil
    f += [True] * (2 * mx + 1) + sil
    f += [True] * mn + [False] * ms + [True] * mn + sil
    f += [True] * mn + [False] * (ms + 1) + [True] * mn + sil
    if ms > 0:
        f += [True] * mn + [False] * (ms - 1) + [True] + sil
    return f


PROBE_MODES = (0, 4, 8, 9, 10)  # main probe with trailing silence kept / dropped, end-of-stream bursts (10: short last window)


def c06_variant(*parts):
    """Which way the non-reader input is given (0: split(bytes), 1: AudioRegion.split, 2: trickling standard input,
    3: AudioRegion.split_and_plot with the drawing stubbed out)."""
    return sum(len(str(p)) + sum(map(ord, str(p)[-2:])) for p in parts) % 4


def c06_split(data, rate, w_arg, kw, variant):
    L = lib()
    if variant == 1:
        return list(L["AR"](data, rate, 1, 1).split(analysis_window=w_arg, **kw))
    if variant == 3:
        return list(L["AR"](data, rate, 1, 1).split_and_plot(show=False, analysis_window=w_arg, **kw))
    if variant == 2:
        old = sys.stdin
        sys.stdin = FakeStdin(data, [max(1, int(w_arg * rate) - 1), 3])
        try:
            return list(L["core"].split("-", sr=rate, sw=1, ch=1, analysis_window=w_arg, **kw))
        finally:
            sys.stdin = old
    return list(L["core"].split(data, sr=rate, sw=1, ch=1, analysis_window=w_arg, **kw))


def probe_for(mn, mx, ms, mode):
    """(flags, tokenizer mode) of probe #mode: 8 and 9 end the stream inside a burst of
    mn-1 / mn windows, the only place where min_dur is visible when max_silence is large."""
    if mode == 8:
        return [False] + [True] * (mn - 1), 0
    if mode in (9, 10):
        return [False] + [True] * mn, 0
    return probe_flags(mn, mx, ms), mode


def discriminating(mn, mx, ms):
    def seg(a, b, c):
        return [tm.segment(probe_for(mn, mx, ms, m)[0], a, b, c, probe_for(mn, mx, ms, m)[1]) for m in PROBE_MODES]

    ref = seg(mn, mx, ms)
    for (a, b, c) in ((mn - 1, mx, ms), (mn + 1, mx, ms), (mn, mx - 1, ms), (mn, mx + 1, ms), (mn, mx, ms - 1), (mn, mx, ms + 1)):
        if a < 1 or b < 1 or a > b or c < 0 or c >= b:
            continue
        if seg(a, b, c) == ref:
            return False, (a, b, c)
    return True, None


def c06_observe(min_dur, max_dur, max_silence, w_arg, rate, use_reader, mn, mx, ms, mode=0):
    """Runs split() on the probe and returns [(start_window, end_window)] observed."""
    L = lib()
    bs = int(w_arg * rate)
    f, tmode = probe_for(mn, mx, ms, mode)
    data = b"".join((b"\x01" if v else b"\x00") * bs for v in f)
    if mode == 10 and bs > 1:
        data = data[: len(data) - bs + 1]  # the stream ends one sample into the burst's last window
    kw = dict(min_dur=min_dur, max_dur=max_dur, max_silence=max_silence, validator=FirstByte(),
              drop_trailing_silence=bool(tmode & 4))
    if use_reader:
        rd = L["util"].AudioReader(data, block_dur=w_arg, sr=rate, sw=1, ch=1)
        regs = list(L["core"].split(rd, **kw))
    else:
        regs = c06_split(data, rate, w_arg, kw, c06_variant(min_dur, max_dur, max_silence, mode))
    out = []
    for r in regs:
        s = round(r.start * rate)
        if s % bs:
            return "region start %r is not on a window boundary" % r.start
        out.append((s // bs, s // bs + (len(r) + bs - 1) // bs - 1))
    return out


def dec_values(w, kmax, seed_stripe=None):
    """Duration alphabet for window w (Decimal): k*w, k*w +- 0.0004, k/1000."""
    vals = set()
    for k in range(1, kmax + 1):
        vals.add(k * w)
        vals.add(k * w + Decimal("0.0004"))
        if k * w - Decimal("0.0004") > 0:
            vals.add(k * w - Decimal("0.0004"))
    return sorted(vals)


def c06_work(task):
    w_s, rate, kset, use_reader = task
    L = lib()
    w = Decimal(w_s)
    cov = {"evaluations": 0, "distinct_nontrivial": 0, "ambiguous_skipped": 0, "samples": [], "rejected_as_expected": 0}
    viol = []
    w_f = float(w)
    bs = int(Fraction(w) * rate)  # exact (alphabet keeps w*rate away from float trouble; checked below)
    if abs(Fraction(w) * rate - round(Fraction(w) * rate)) != 0 and abs(Fraction(w) * rate - round(Fraction(w) * rate)) < Fraction(1, 10 ** 6):
        return {"cov": cov, "viol": viol}
    if bs != int(w_f * rate):
        return {"cov": cov, "viol": viol}
    w_eff = Fraction(bs, rate) if (use_reader and bs > 0) else Fraction(w)
    durs = []
    for k in kset:
        for d in (k * w, k * w + Decimal("0.0004"), k * w - Decimal("0.0004")):
            if d > 0:
                durs.append(d)
    durs = sorted(set(durs))
    sils = sorted(set([Decimal(0)] + [k * w for k in kset[:4]] + [k * w + Decimal("0.0004") for k in kset[:3]]
                      + [k * w - Decimal("0.0004") for k in kset[:3] if k * w > Decimal("0.0004")]))
    for mind, maxd in itertools.product(durs, durs):
        for sil in sils:
            cov["evaluations"] += 1
            qs = [Fraction(mind) / w_eff, Fraction(maxd) / w_eff, Fraction(sil) / w_eff]
            if any(ambiguous(q) for q in qs):
                cov["ambiguous_skipped"] += 1
                continue
            key = "durations min=%s max=%s sil=%s w=%s rate=%d reader=%s" % (mind, maxd, sil, w_s, rate, use_reader)
            case = {"kind": "c06", "min": str(mind), "max": str(maxd), "sil": str(sil), "w": w_s, "rate": rate,
                    "reader": use_reader}
            if bs == 0:
                want_err = True
                mn = mx = ms = None
            else:
                mn, mx, ms = counts(Fraction(mind), Fraction(maxd), Fraction(sil), w_eff)
                want_err = mn > mx or ms >= mx
            try:
                if want_err:
                    if bs == 0:
                        got = c06_observe(float(mind), float(maxd), float(sil), w_f, rate, use_reader, 1, 1, 0)
                    else:
                        data = b"\x01" * (bs * 4)
                        kw = dict(min_dur=float(mind), max_dur=float(maxd), max_silence=float(sil))
                        if use_reader:
                            list(L["core"].split(L["util"].AudioReader(data, block_dur=w_f, sr=rate, sw=1, ch=1), **kw))
                        else:
                            c06_split(data, rate, w_f, kw, c06_variant(mind, maxd, sil))
                    msg = "accepted; the statement requires ValueError (windows: min %r, max %r, silence %r)" % (mn, mx, ms)
                else:
                    msg = None
                    for mode in PROBE_MODES:
                        got = c06_observe(float(mind), float(maxd), float(sil), w_f, rate, use_reader, mn, mx, ms, mode)
                        if isinstance(got, str):
                            msg = got
                            break
                        pf, tmode = probe_for(mn, mx, ms, mode)
                        exp = tm.segment(pf, mn, mx, ms, tmode)
                        if got != exp:
                            msg = "events %r%s; with %d/%d/%d windows (ceil/floor/floor) they would be %r" % (
                                got[:6], " (probe %d)" % mode if mode else "", mn, mx, ms, exp[:6])
                            break
                    cov["distinct_nontrivial"] += 1
            except ValueError as exc:
                if want_err:
                    cov["rejected_as_expected"] += 1
                    msg = None
                else:
                    msg = "ValueError %s; the statement accepts (windows %d/%d/%d)" % (str(exc)[:80], mn, mx, ms)
            except Exception as exc:
                msg = "raised %r" % (exc,)
            if msg and len(viol) < 8:
                viol.append((key, msg, case))
    cov["samples"].append({"w": w_s, "rate": rate, "reader_input": use_reader, "k": list(kset)[:8],
                           "example": {"min_dur": str(durs[len(durs) // 2]), "max_dur": str(durs[-1]), "max_silence": str(sils[1])}})
    return {"cov": cov, "viol": viol}


def c06_large(task):
    """Large window counts (hundreds / a thousand windows per duration)."""
    w_s, rate = task
    w = Decimal(w_s)
    cov = {"evaluations": 0, "distinct_nontrivial": 0, "large_rows_not_exhaustive": 0, "ambiguous_skipped": 0, "samples": []}
    viol = []
    ks = (127, 128, 129, 255, 256, 257, 351, 419, 512, 1000, 1024)
    for kmin, kmax in ((127, 128), (129, 129), (255, 257), (256, 351), (351, 351), (419, 512), (419, 419), (1000, 1024), (1024, 1024)):
        for ksil in (0, 3, 126):
            for dmin, dmax in ((Decimal(0), Decimal(0)), (Decimal("0.0004"), Decimal(0)), (Decimal(0), Decimal("-0.0004"))):
                cov["evaluations"] += 1
                cov["large_rows_not_exhaustive"] += 1
                mind, maxd, sil = kmin * w + dmin, kmax * w + dmax, ksil * w
                msg = c06_single(w_s, rate, mind, maxd, sil, False)
                cov["distinct_nontrivial"] += 1
                if msg and len(viol) < 4:
                    viol.append(("durations-large min=%s max=%s sil=%s w=%s rate=%d" % (mind, maxd, sil, w_s, rate), msg,
                                 {"kind": "c06", "min": str(mind), "max": str(maxd), "sil": str(sil), "w": w_s, "rate": rate, "reader": False}))
    cov["samples"].append({"w": w_s, "rate": rate, "large_window_counts": list(ks)})
    return {"cov": cov, "viol": viol}


def c06_hop(task):
    """An AudioReader with overlapping windows: w is still its block duration, counts are in reads."""
    w_s, rate = task
    L = lib()
    w = Decimal(w_s)
    bs = int(float(w) * rate)
    hs = bs // 2
    cov = {"evaluations": 0, "distinct_nontrivial": 0, "samples": []}
    viol = []
    if hs == 0 or bs % 2:
        return {"cov": cov, "viol": viol}
    w_eff = Fraction(bs, rate)
    for kmn, kmx, ksl in itertools.product((1, 2, 4), (4, 5, 10), (0, 1, 2)):
        for dmn, dmx in ((Decimal(0), Decimal(0)), (Decimal("0.0004"), Decimal("-0.0004"))):
            mind, maxd, sil = kmn * w + dmn, kmx * w + dmx, ksl * w
            cov["evaluations"] += 1
            mn, mx, ms = counts(Fraction(mind), Fraction(maxd), Fraction(sil), w_eff)
            if any(ambiguous(Fraction(x) / w_eff) for x in (mind, maxd, sil)):
                continue
            want_err = mn > mx or ms >= mx
            flags = probe_flags(mn, mx, ms) if not want_err else [True, False, True]
            # one half-window per flag: read k starts at half-window k, so its first byte carries flag k
            data = b"".join((b"\x01" if v else b"\x00") * hs for v in flags) + b"\x00" * hs
            try:
                rd = L["util"].AudioReader(data, block_dur=float(w), hop_dur=float(w) / 2, sr=rate, sw=1, ch=1)
                regs = list(L["core"].split(rd, min_dur=float(mind), max_dur=float(maxd), max_silence=float(sil), validator=FirstByte()))
                if want_err:
                    msg = "accepted; the statement requires ValueError (windows %d/%d/%d)" % (mn, mx, ms)
                else:
                    got = []
                    for r in regs:
                        k0 = round(r.start / float(w_eff))
                        got.append((k0, k0 + len(r) // bs - 1))
                    exp = tm.segment(flags, mn, mx, ms, 0)
                    msg = None if got == exp else "overlapping reader: events %r; with %d/%d/%d windows they would be %r" % (got[:6], mn, mx, ms, exp[:6])
                    cov["distinct_nontrivial"] += 1
            except ValueError as exc:
                msg = None if want_err else "ValueError %s; the statement accepts (windows %d/%d/%d)" % (str(exc)[:80], mn, mx, ms)
            except Exception as exc:
                msg = "raised %r" % (exc,)
            if msg and len(viol) < 4:
                viol.append(("durations-hop min=%s max=%s sil=%s w=%s rate=%d" % (mind, maxd, sil, w_s, rate), msg,
                             {"kind": "c06hop", "w": w_s, "rate": rate}))
    cov["samples"].append({"overlapping_reader": True, "w": w_s, "rate": rate})
    return {"cov": cov, "viol": viol}


def c06_signed_table(rep):
    """Non-positive / negative arguments: ValueError exactly for the stated reasons."""
    L = lib()
    data = b"\x01" * 40
    vals = [-1, -0.1, 0, 0.05, 0.1, 0.2, 0.35]
    for mind, maxd, sil, aw in itertools.product(vals, vals, [-0.1, 0, 0.1, 0.2, 0.3], [-0.1, 0, 0.005, 0.1]):
        rep.add("evaluations")
        bad = mind <= 0 or maxd <= 0 or sil < 0 or aw <= 0
        if not bad:
            bs = int(aw * 100)
            if bs == 0:
                bad = True
            else:
                mn, mx, ms = counts(Fraction(str(mind)), Fraction(str(maxd)), Fraction(str(sil)), Fraction(str(aw)))
                bad = mn > mx or ms >= mx
        # the window under its long name, under its alias, and through the region method; zero also as 0.0 / -0.0
        how = (rep.cov["evaluations"]) % 3
        aw_given = (0.0 if how == 1 else -0.0 if how == 2 else 0) if aw == 0 else aw
        try:
            kw = dict(min_dur=mind, max_dur=maxd, max_silence=sil, validator=FirstByte())
            if how == 0:
                list(L["core"].split(data, analysis_window=aw_given, sr=100, sw=1, ch=1, **kw))
            elif how == 1:
                list(L["core"].split(data, aw=aw_given, sr=100, sw=1, ch=1, **kw))
            else:
                list(L["AR"](data, 100, 1, 1).split(aw=aw_given, **kw))
            got = False
        except ValueError:
            got = True
        except Exception as exc:
            got = repr(exc)
        if got is not bad:
            rep.violation("signed min=%r max=%r sil=%r aw=%r how=%d" % (mind, maxd, sil, aw_given, how),
                          "split (%s) %s, statement says %s" % (
                              ("analysis_window=%r" if how == 0 else "aw=%r" if how == 1 else "AudioRegion.split, aw=%r") % aw_given,
                              "raised ValueError" if got is True else ("accepted" if got is False else got),
                              "ValueError" if bad else "accept"),
                          {"kind": "c06signed", "min": mind, "max": maxd, "sil": sil, "aw": aw})


# ---------------------------------------------------------------------------
# C08 (split half): a region is yielded before more than the deciding window is pulled


class CountingSource:
    def __init__(self, inner):
        self._i = inner
        self.samples = 0
        self.nones = 0

    def read(self, size):
        b = self._i.read(size)
        if b is None:
            self.nones += 1
        else:
            self.samples += len(b) // (self._i.sw * self._i.ch)
        return b

    def __getattr__(self, n):
        return getattr(self._i, n)


def split_laziness(rep, L):
    lib_ = lib()
    from auditok.io import AudioSource, BufferAudioSource

    class Counting(AudioSource):
        def __init__(self, data, sr, sw, ch):
            super().__init__(sr, sw, ch)
            self._b = BufferAudioSource(data, sr, sw, ch)
            self.samples = 0
            self.nones = 0

        def is_open(self):
            return self._b.is_open()

        def open(self):
            self._b.open()

        def close(self):
            self._b.close()

        def read(self, size):
            b = self._b.read(size)
            if b is None:
                self.nones += 1
            else:
                self.samples += len(b) // 2
            return b

    # large windows: the source must be asked for end of stream exactly once whatever the length of the tail
    for W_, rate_ in ((8000, 16000), (4410, 44100), (16384, 16384)):
        for tail in (0, 1, 1000, 4095, 4096, 4097, 8192, W_ - 1):
            if tail >= W_:
                continue
            for flags in ([True], [True, False, True], [False, True, True]):
                rep.add("evaluations")
                rep.add("large_rows_not_exhaustive")
                data = coded(flags, W_, 2, 1, tail, True)
                src = Counting(data, rate_, 2, 1)
                regs = list(lib_["core"].split(src, min_dur=W_ / rate_, max_dur=2 * W_ / rate_, max_silence=0, analysis_window=W_ / rate_,
                                               energy_threshold=50))
                if src.nones != 1 or src.samples != len(data) // 2:
                    rep.violation("split-lazy-large W=%d rate=%d tail=%d pattern=%s" % (W_, rate_, tail, tm.show(flags)),
                                  "windows of %d samples, tail %d: end of stream requested %d times, %d of %d samples pulled" % (
                                      W_, tail, src.nones, src.samples, len(data) // 2),
                                  {"kind": "lazy", "tuple": [1, 2, 0, 0], "flags": tm.show(flags)})
    # a raw file read lazily (large_file=True) that is still being written: what is appended after the first region was
    # yielded is part of the stream - the file was not swallowed whole at open time, however small it is
    d_ = common.scratch_dir()
    for na, nb in ((4, 3), (6, 1), (3, 5)):
        for lazy_kw in (dict(large_file=True), dict(large_file=True, max_read=60.0)):
            rep.add("evaluations")
            rep.add("distinct_nontrivial")
            first = coded([True] + [False] * (na - 1), 2, 2, 1)
            second_flags = [True] * nb + [False]
            whole = coded([True] + [False] * (na - 1) + second_flags, 2, 2, 1)
            path = os.path.join(d_, "growing_%d.raw" % os.getpid())
            with open(path, "wb") as fp:
                fp.write(first)
            kw = dict(sr=20, sw=2, ch=1, analysis_window=0.1, min_dur=0.1, max_dur=1.0, max_silence=0, energy_threshold=50, **lazy_kw)
            try:
                gen = lib_["core"].split(path, **kw)
                r1 = next(gen)
                with open(path, "ab") as fp:
                    fp.write(whole[len(first):])
                rest = list(gen)
                got = [(round(r.start * 20), r.data) for r in [r1] + rest]
                want = [(0, whole[:4]), (na * 2, whole[na * 4 : (na + nb) * 4])]
                msg = None if got == want else "regions at samples %r, expected %r" % ([(s_, len(x)) for s_, x in got], [(s_, len(x)) for s_, x in want])
            except Exception as exc:
                msg = "raised %r" % (exc,)
            finally:
                try:
                    gen.close()
                except Exception:
                    pass
                os.unlink(path)
            if msg:
                rep.violation("split-lazy growing file first=%d second=%d %s" % (na, nb, sorted(lazy_kw)),
                              "raw file of %d windows read with large_file=True, %d more windows appended after the first region was yielded: %s" % (na, nb + 1, msg),
                              {"kind": "lazy", "tuple": [1, 10, 0, 0], "flags": "A"})
    W = 2
    from .chk_reader import blocks_of, consumed_after
    import sys as _sys

    class CountingStdin:
        """sys.stdin stand-in whose .buffer counts the bytes every read call hands to the library (a read of n bytes
        on a pipe blocks until n bytes have arrived, so bytes asked for and received are bytes waited for)."""

        def __init__(self, data):
            outer = self
            self.samples = 0
            self.nones = 0
            bio = io.BytesIO(data)

            class Buf:
                raw = None

                def _count(self, b):
                    if b:
                        outer.samples += len(b) // 2
                    else:
                        outer.nones += 1
                    return b

                def read(self, n=-1):
                    return self._count(bio.read(n))

                def read1(self, n=-1):
                    return self._count(bio.read1(n))

                def readinto(self, buf):
                    k = bio.readinto(buf)
                    self._count(bytes(k))
                    return k

                def fileno(self):
                    raise io.UnsupportedOperation("fileno")

                def readable(self):
                    return True

                def close(self):
                    pass

                closed = False

            self.buffer = Buf()
            self.buffer.raw = self.buffer

        def fileno(self):
            raise io.UnsupportedOperation("fileno")

    validator = lib_["util"].AudioEnergyValidator(50, 2, 1)
    # src_mr / reader_mr: max_read ends one sample into a window and the source holds more audio behind the limit
    kinds = ("src", "reader", "rec_reader", "hop", "hop_tail", "rec_hop_tail", "stdin", "region_start", "src_mr", "reader_mr")
    rep.cov["laziness_inputs"] = list(kinds)
    for (mn, mx, ms, mode) in [(1, 1, 0, 0), (1, 3, 0, 0), (2, 3, 1, 0), (1, 3, 2, 0), (2, 4, 1, 4), (1, 2, 1, 2), (3, 3, 0, 6),
                               (2, 5, 3, 4), (1, 4, 3, 0), (2, 2, 1, 0), (1, 5, 0, 4), (3, 5, 2, 2)]:
        for n in range(L + 1):
            for bits in range(1 << n):
              for kind in kinds:
                if kind != "src" and n > L - 2:
                    continue
                wflags = [bool((bits >> k) & 1) for k in range(n)]
                tail = 1 if kind.endswith("hop_tail") or kind.endswith("_mr") else 0
                data = coded(wflags, W, 2, 1, tail, True)
                total = len(data) // 2
                full = data + (coded([True, True], W, 2, 1) if kind.endswith("_mr") else b"")
                B, H = (2 * W, W) if "hop" in kind else (W, W)
                samples = [data[2 * i : 2 * i + 2] for i in range(total)]
                blocks = blocks_of(samples, B, H)
                flags = [bool(validator.is_valid(b)) for b in blocks] if "hop" in kind else wflags + ([True] if tail else [])
                wd = 0.2 if "hop" in kind else 0.1  # for a reader input the window is its block duration
                kw = dict(min_dur=mn * wd, max_dur=mx * wd, max_silence=ms * wd, drop_trailing_silence=bool(mode & 4),
                          strict_min_dur=bool(mode & 2), energy_threshold=50)
                rep.add("evaluations")
                old_stdin = _sys.stdin
                try:
                    if kind == "region_start":
                        # a region that is itself a detection (it carries a start), split by its own method: how far the
                        # analysis has gone is seen through a counting validator (one call per window)
                        class _Pulled:
                            samples = 0
                            nones = 1

                        src = _Pulled()

                        class _CountingValidator(lib_["util"].DataValidator):
                            def is_valid(self, w, _v=validator, _s=src):
                                _s.samples += len(w) // 2
                                _s.nones = 0
                                return _v.is_valid(w)

                        kw_r = {k_: v_ for k_, v_ in kw.items() if k_ != "energy_threshold"}
                        gen = lib_["AR"](data, 20, 2, 1, 2.5).split(analysis_window=0.1, validator=_CountingValidator(), **kw_r)
                    elif kind == "stdin":
                        src = CountingStdin(data)
                        _sys.stdin = src
                        gen = lib_["core"].split("-", analysis_window=0.1, sampling_rate=20, sample_width=2, channels=1, **kw)
                    else:
                        src = Counting(full, 20, 2, 1)
                        if kind == "src":
                            inp = src
                        elif kind == "src_mr":
                            inp = src
                            kw = dict(kw, max_read=total / 20)
                        elif kind == "reader_mr":
                            inp = lib_["util"].AudioReader(src, block_dur=0.1, max_read=total / 20)
                        elif kind in ("reader", "rec_reader"):
                            inp = lib_["util"].AudioReader(src, block_dur=0.1, record=(kind == "rec_reader"))
                        else:
                            inp = lib_["util"].AudioReader(src, block_dur=0.2, hop_dur=0.1, record=kind.startswith("rec"))
                        gen = lib_["core"].split(inp, analysis_window=0.1, **kw)
                    exp = tm.segment(flags, mn, mx, ms, mode)
                    j = 0
                    msg = None
                    for r in gen:
                        if j >= len(exp):
                            msg = "more regions than the model"
                            break
                        s, e = exp[j]
                        j += 1
                        ln = e - s + 1
                        if ln >= mx:
                            dec = e
                        else:
                            lv = e
                            while lv >= s and not flags[lv]:
                                lv -= 1
                            dec = lv + max(ms, 0) + 1
                        if dec >= len(flags):
                            continue  # decided by the end of the stream
                        limit = consumed_after(dec + 1, total, B, H)
                        if src.samples > limit:
                            msg = "region (%d,%d) yielded after %d samples were pulled; deciding window ends at sample %d" % (
                                s, e, src.samples, limit)
                            break
                        if src.nones:
                            msg = ("region (%d,%d) is decided by window %d, yet the input was asked for more (%d request(s) answered "
                                   "by end of stream) before it was yielded" % (s, e, dec, src.nones))
                            break
                    if msg is None and j != len(exp):
                        msg = "%d regions, the model has %d" % (j, len(exp))
                finally:
                    _sys.stdin = old_stdin
                if kind == "region_start":
                    src.nones = 1  # (end-of-stream requests cannot be seen from a validator)
                if kind.endswith("_mr"):
                    if msg is None and src.samples > total:
                        msg = "%d samples pulled from the source, max_read allows %d" % (src.samples, total)
                    src.nones = 1  # (under max_read the source itself need not be asked for its end)
                if msg is None and src.nones != 1:
                    msg = "end of stream requested %d times from the input" % src.nones
                if exp:
                    rep.add("distinct_nontrivial")
                if msg:
                    rep.violation("split-lazy input=%s tuple=%d,%d,%d,%d pattern=%s" % (kind, mn, mx, ms, mode, tm.show(wflags)),
                                  "input %s: %s" % (kind, msg),
                                  {"kind": "lazy", "tuple": [mn, mx, ms, mode], "flags": tm.show(wflags)})


# ---------------------------------------------------------------------------
# C09


from .chk_sources import FakeStdin, PipeStdin  # noqa: E402  (BytesIO, or a BufferedReader over a short-reading raw stream)


def regions_sig(regs, rate):
    return [(round(r.start * rate), r.data) for r in regs]


SPELL = [("sampling_rate", "sr"), ("sample_width", "sw"), ("channels", "ch"), ("analysis_window", "aw"),
         ("energy_threshold", "eth"), ("use_channel", "uc")]


def c09_work(task):
    sw, ch, rate, W, pattern, tail, tier = task
    L = lib()
    core, util, aio, AR = L["core"], L["util"], L["io"], L["AR"]
    cov = {"evaluations": 0, "distinct_nontrivial": 0, "samples": []}
    viol = []
    flags = tm.parse(pattern)
    data = coded(flags, W, sw, ch, tail, True)
    aw = W / rate
    d = os.path.join(common.scratch_dir(), "c09_%d" % os.getpid())
    os.makedirs(d, exist_ok=True)
    wavf = os.path.join(d, "x.wav")
    rawf = os.path.join(d, "x.raw")
    oddf = os.path.join(d, "x.ogg")  # misleading extension, raw content
    with wave.open(wavf, "wb") as fp:
        fp.setframerate(rate)
        fp.setsampwidth(sw)
        fp.setnchannels(ch)
        fp.writeframes(data)
    for f in (rawf, oddf):
        with open(f, "wb") as fp:
            fp.write(data)
    # the same files under names as cameras and recorders write them (upper / mixed case, "wave")
    import shutil as _sh

    wavU, wavM, rawU = os.path.join(d, "REC001.WAV"), os.path.join(d, "take.2.Wave"), os.path.join(d, "DUMP.RAW")
    _sh.copyfile(wavf, wavU)
    _sh.copyfile(wavf, wavM)
    _sh.copyfile(rawf, rawU)
    from .chk_sources import write_wav_chunky

    wavX = os.path.join(d, "edited_x.wav")  # extra chunks before and after the audio, pad byte
    write_wav_chunky(wavX, data, rate, sw, ch)
    ap = dict(sampling_rate=rate, sample_width=sw, channels=ch)
    eth = eth_for(sw)
    bps_ = sw * ch

    def complain(key, msg, case):
        if len(viol) < 8:
            viol.append((key, msg, dict(case, kind="c09", sw=sw, ch=ch, rate=rate, W=W, pattern=pattern, tail=tail)))

    for (mn, mx, ms) in [(1, 1, 0), (1, 2, 0), (1, 2, 1), (2, 2, 0), (2, 2, 1), (1, 3, 2), (2, 4, 1)]:
        for uc in ([None] if ch == 1 else [None, "mix", 0, -1]):
            base_kw = dict(min_dur=mn * aw, max_dur=mx * aw, max_silence=ms * aw)
            long_kw = dict(analysis_window=aw, energy_threshold=eth, use_channel=uc)
            base = regions_sig(core.split(data, **base_kw, **long_kw, **ap), rate)
            tag = "tuple=%d,%d,%d uc=%r" % (mn, mx, ms, uc)

            def run(kind):
                if kind == "bytes":
                    return core.split(data, **base_kw, **long_kw, **ap)
                if kind == "region":
                    return AR(data, rate, sw, ch).split(**base_kw, **long_kw)
                if kind == "region_fn":
                    return core.split(AR(data, rate, sw, ch), **base_kw, **long_kw)
                if kind == "wav":
                    return core.split(wavf, **base_kw, **long_kw)
                if kind == "wav_path":
                    return core.split(Path(wavf), **base_kw, **long_kw)
                if kind == "wav_lazy":
                    return core.split(wavf, large_file=True, **base_kw, **long_kw)
                if kind in ("wav_redundant", "wav_lazy_redundant"):
                    # a caller that passes raw-audio parameters for every file alike: a wav file carries its own, which win
                    other = dict(sr=rate, sw=1 if sw != 1 else 2, ch=1 if ch != 1 else 2) if kind == "wav_redundant" else dict(
                        sampling_rate=2 * rate, sample_width=2 if sw != 2 else 4, channels=ch + 1)
                    return core.split(wavf, large_file=kind.startswith("wav_lazy"), **base_kw, **long_kw, **other)
                if kind in ("WAV", "WAV_lazy", "Wave"):
                    return core.split(wavM if kind == "Wave" else wavU, large_file=kind.endswith("lazy"), **base_kw, **long_kw)
                if kind in ("wavx", "wavx_lazy"):
                    return core.split(wavX, large_file=kind.endswith("lazy"), **base_kw, **long_kw)
                if kind in ("RAW", "RAW_lazy"):
                    return core.split(rawU, large_file=kind.endswith("lazy"), **base_kw, **long_kw, **ap)
                if kind == "raw":
                    return core.split(rawf, **base_kw, **long_kw, **ap)
                if kind == "raw_lazy":
                    return core.split(rawf, large_file=True, **base_kw, **long_kw, **ap)
                if kind == "raw_fmt":
                    return core.split(oddf, fmt="raw", **base_kw, **long_kw, **ap)
                if kind == "raw_audio_format":
                    return core.split(oddf, audio_format="raw", fmt="ogg", large_file=True, **base_kw, **long_kw, **ap)
                if kind == "user_adapter":
                    # a user-defined AudioSource subclass: the first channel of a stereo source whose other channel differs
                    from .chk_sources import mono_view_class, interleave_with_noise

                    inner = aio.BufferAudioSource(interleave_with_noise(data, sw), rate, sw, 2)
                    return core.split(mono_view_class()(inner), **base_kw, **long_kw)
                if kind == "buffer_source":
                    return core.split(aio.BufferAudioSource(data, rate, sw, ch), **base_kw, **long_kw)
                if kind == "raw_source":
                    return core.split(aio.RawAudioSource(rawf, rate, sw, ch), **base_kw, **long_kw)
                if kind == "wave_source":
                    return core.split(aio.WaveAudioSource(wavf), **base_kw, **long_kw)
                if kind == "reader":
                    return core.split(util.AudioReader(data, block_dur=aw, **ap), energy_threshold=eth, use_channel=uc, **base_kw)
                if kind == "reader_wav":
                    return core.split(util.AudioReader(wavf, block_dur=aw, large_file=True), eth=eth, uc=uc, **base_kw)
                if kind.startswith("stdin"):
                    old = sys.stdin
                    chunks = [int(x) for x in kind.split(":")[1].split(",")] if ":" in kind else None
                    sys.stdin = PipeStdin(data, chunks) if kind.startswith("stdin_fd") else FakeStdin(data, chunks)
                    try:
                        return list(core.split("-", **base_kw, **long_kw, **ap))
                    finally:
                        if kind.startswith("stdin_fd"):
                            sys.stdin.close()
                        sys.stdin = old
                raise ValueError(kind)

            for kind in ("bytes", "region", "region_fn", "wav", "wav_path", "wav_lazy", "raw", "raw_lazy", "raw_fmt",
                         "raw_audio_format", "buffer_source", "raw_source", "wave_source", "reader", "reader_wav", "stdin", "stdin:1", "stdin:3",
                         "WAV", "WAV_lazy", "Wave", "RAW", "RAW_lazy", "wavx", "wavx_lazy", "wav_redundant", "wav_lazy_redundant",
                         ) + (("user_adapter", "user_adapter_mr") if ch == 1 and uc is None else ()) + ( "stdin_fd:%d,3" % (W * sw * ch - 1),
                         "stdin:%d,2" % (W * sw * ch - 1)):
                cov["evaluations"] += 1
                try:
                    if kind == "user_adapter_mr":
                        from .chk_sources import mono_view_class, interleave_with_noise

                        t_ = (len(data) // bps_ - max(1, W // 2)) / rate
                        inner_ = aio.BufferAudioSource(interleave_with_noise(data, sw), rate, sw, 2)
                        got = regions_sig(core.split(mono_view_class()(inner_), max_read=t_, **base_kw, **long_kw), rate)
                        ref_ = regions_sig(core.split(data[: round(t_ * rate) * bps_], **base_kw, **long_kw, **ap), rate)
                        msg = None if got == ref_ else "user adapter with max_read=%r gives %r, the first round(t*rate) samples give %r" % (
                            t_, [(s, len(x)) for s, x in got], [(s, len(x)) for s, x in ref_])
                        if msg:
                            complain("container %s %s" % (kind, tag), msg, {"what": "container", "container": kind, "tuple": [mn, mx, ms], "uc": uc})
                        continue
                    got = regions_sig(run(kind), rate)
                    msg = None if got == base else "container %s gives %r, raw bytes give %r" % (
                        kind, [(s, len(x)) for s, x in got], [(s, len(x)) for s, x in base])
                except Exception as exc:
                    msg = "container %s raised %r" % (kind, exc)
                if base:
                    cov["distinct_nontrivial"] += 1
                if msg:
                    complain("container %s %s" % (kind, tag), msg, {"what": "container", "container": kind, "tuple": [mn, mx, ms], "uc": uc})
            # an AudioSource handed over with its cursor already advanced: the supplied audio starts there
            for adv in (W, 2 * W + 1):
                if adv * bps_ >= len(data):
                    continue
                rest = data[adv * bps_ :]
                for mrk in (None, (W + 1) / rate, (3 * W) / rate):
                    cov["evaluations"] += 1
                    src = aio.BufferAudioSource(data, rate, sw, ch)
                    src.position = adv
                    kwm = {} if mrk is None else {"max_read": mrk}
                    refm = regions_sig(core.split(rest if mrk is None else rest[: round(mrk * rate) * bps_], **base_kw, **long_kw, **ap), rate)
                    try:
                        got = regions_sig(core.split(src, **base_kw, **long_kw, **kwm), rate)
                        msg = None if got == refm else "pre-advanced source (by %d samples, max_read=%r) gives %r, the audio from there gives %r" % (
                            adv, mrk, [(s_, len(x)) for s_, x in got], [(s_, len(x)) for s_, x in refm])
                    except Exception as exc:
                        msg = "pre-advanced source raised %r" % (exc,)
                    if msg:
                        complain("pre-advanced %d max_read=%r %s" % (adv, mrk, tag), msg, {"what": "preadv", "tuple": [mn, mx, ms], "uc": uc})
            # spellings: short alone, and long + a wrong short value (the long name wins)
            longs = dict(sampling_rate=rate, sample_width=sw, channels=ch, analysis_window=aw, energy_threshold=eth, use_channel=uc)
            wrong = dict(sr=rate * 2, sw=(1 if sw != 1 else 2), ch=ch + 1, aw=aw * 2, eth=eth + 60, uc=(0 if uc != 0 else "mix"))
            for long_name, short in SPELL:
                for variant in ("short", "both", "both_short_first"):
                    cov["evaluations"] += 1
                    kw = dict(longs)
                    if variant == "short":
                        kw[short] = kw.pop(long_name)
                    elif variant == "both":
                        kw[short] = wrong[short]
                    else:
                        kw = {short: wrong[short]}  # the same two spellings, the short one written first
                        kw.update(longs)
                    if long_name == "use_channel" and ch == 1:
                        continue
                    try:
                        got = regions_sig(core.split(data, **base_kw, **kw), rate)
                        msg = None if got == base else "spelling %s (%s) gives %r, long names give %r" % (
                            short, variant, [(s, len(x)) for s, x in got], [(s, len(x)) for s, x in base])
                    except Exception as exc:
                        msg = "spelling %s (%s) raised %r" % (short, variant, exc)
                    if msg:
                        complain("spelling %s/%s %s" % (short, variant, tag), msg,
                                 {"what": "spelling", "short": short, "variant": variant, "tuple": [mn, mx, ms], "uc": uc})
            # validator / val
            val = util.AudioEnergyValidator(eth, sw, ch, uc)

            class CountingValidator(util.DataValidator):
                """A user validator that also is a container (of the windows it rejected so far): empty, hence falsy, when given."""

                def __init__(self):
                    self.rejected = []

                def __len__(self):
                    return len(self.rejected)

                def is_valid(self, w):
                    ok = val.is_valid(w)
                    if not ok:
                        self.rejected.append(len(w))
                    return ok

            for kw in (dict(validator=val), dict(val=val), dict(validator=val, val=lambda w: False),
                       dict(validator=val, energy_threshold=eth + 80), dict(validator=CountingValidator(), energy_threshold=eth + 80),
                       dict(val=CountingValidator(), eth=eth + 80)):
                cov["evaluations"] += 1
                got = regions_sig(core.split(data, analysis_window=aw, **base_kw, **kw, **ap), rate)
                if got != base:
                    complain("validator spelling %r %s" % (sorted(kw), tag), "validator spelling %r differs" % sorted(kw),
                             {"what": "val", "tuple": [mn, mx, ms], "uc": uc})
            # fmt / audio_format: long wins
            cov["evaluations"] += 1
            try:
                got = regions_sig(core.split(oddf, audio_format="raw", fmt="wav", **base_kw, **long_kw, **ap), rate)
                if got != base:
                    complain("audio_format wins %s" % tag, "audio_format='raw', fmt='wav' differs", {"what": "fmt"})
            except Exception as exc:
                complain("audio_format wins %s" % tag, "audio_format='raw', fmt='wav' raised %r" % (exc,), {"what": "fmt"})
            # max_read / mr
            bps = sw * ch
            nsamp = len(data) // bps
            ts = [0, 1 / rate, (W + 0.5) / rate, W / rate, (2 * W + 0.25) / rate, (nsamp - 1) / rate, nsamp / rate, (nsamp + 3) / rate,
                  (W + 0.75) / rate]
            for t in ts:
                k = round(t * rate)  # R4: the statement names round(t*rate)
                ref = regions_sig(core.split(data[: k * bps], **base_kw, **long_kw, **ap), rate)
                for kw, nm in ((dict(max_read=t), "max_read"), (dict(mr=t), "mr"), (dict(max_read=t, mr=t / 2), "both-smaller"),
                               (dict(max_read=t, mr=2 * t + 0.3), "both-larger")):
                    for kind in ("bytes", "wav_lazy", "wav", "raw", "raw_lazy", "buffer_source", "region_fn", "recorder_class"):
                        if nm.startswith("both") and kind in ("raw_lazy", "recorder_class"):
                            continue
                        if kind == "recorder_class" and nm != "max_read":
                            continue  # the aliases are split()'s; the reader classes take max_read
                        cov["evaluations"] += 1
                        try:
                            if kind == "bytes":
                                got = regions_sig(core.split(data, **base_kw, **long_kw, **ap, **kw), rate)
                            elif kind == "wav":
                                got = regions_sig(core.split(wavf, **base_kw, **long_kw, **kw), rate)
                            elif kind == "raw":
                                got = regions_sig(core.split(rawf, **base_kw, **long_kw, **ap, **kw), rate)
                            elif kind == "raw_lazy":
                                got = regions_sig(core.split(rawf, large_file=True, **base_kw, **long_kw, **ap, **kw), rate)
                            elif kind == "buffer_source":
                                got = regions_sig(core.split(aio.BufferAudioSource(data, rate, sw, ch), **base_kw, **long_kw, **kw), rate)
                            elif kind == "region_fn":
                                got = regions_sig(core.split(AR(data, rate, sw, ch), **base_kw, **long_kw, **kw), rate)
                            elif kind == "recorder_class":
                                rd_ = util.Recorder(data, block_dur=aw, **ap, **kw)
                                got = regions_sig(core.split(rd_, energy_threshold=eth, use_channel=uc, **base_kw), rate)
                            else:
                                got = regions_sig(core.split(wavf, large_file=True, **base_kw, **long_kw, **kw), rate)
                            msg = None if got == ref else "%s=%r on %s gives %r, the first %d samples give %r" % (
                                nm, t, kind, [(s, len(x)) for s, x in got], k, [(s, len(x)) for s, x in ref])
                        except Exception as exc:
                            msg = "%s=%r on %s raised %r" % (nm, t, kind, exc)
                        if msg:
                            complain("max_read %s=%r %s %s" % (nm, t, kind, tag), msg,
                                     {"what": "max_read", "name": nm, "t": t, "container": kind, "tuple": [mn, mx, ms], "uc": uc})
    # the same paths written again - other audio of the same size, then another format: every file container must
    # report the file's CURRENT content (nothing remembered per path)
    kw0 = dict(min_dur=aw, max_dur=3 * aw, max_silence=0, analysis_window=aw, energy_threshold=eth)
    inv = coded([not f for f in flags], W, sw, ch, tail, False)
    sw2, ch2, rate2 = (1 if sw != 1 else 2), (ch % 3) + 1, rate * 2
    other = coded(flags[::-1], W, sw2, ch2, 0, True)
    for data2, f2 in ((inv, (rate, sw, ch)), (other, (rate2, sw2, ch2))):
        r2, s2, c2 = f2
        with wave.open(wavf, "wb") as fp:
            fp.setframerate(r2)
            fp.setsampwidth(s2)
            fp.setnchannels(c2)
            fp.writeframes(data2)
        with open(rawf, "wb") as fp:
            fp.write(data2)
        eth2 = eth_for(s2)
        kw2 = dict(kw0, energy_threshold=eth2, analysis_window=W / r2, min_dur=W / r2, max_dur=3 * W / r2)
        base2 = regions_sig(core.split(data2, sr=r2, sw=s2, ch=c2, **kw2), r2)
        for kind in ("wav", "wav_lazy", "raw", "raw_lazy", "wave_source", "raw_source"):
            cov["evaluations"] += 1
            try:
                if kind == "wav":
                    got = core.split(wavf, **kw2)
                elif kind == "wav_lazy":
                    got = core.split(wavf, large_file=True, **kw2)
                elif kind == "raw":
                    got = core.split(rawf, sr=r2, sw=s2, ch=c2, **kw2)
                elif kind == "raw_lazy":
                    got = core.split(rawf, large_file=True, sr=r2, sw=s2, ch=c2, **kw2)
                elif kind == "wave_source":
                    got = core.split(aio.WaveAudioSource(wavf), **kw2)
                else:
                    got = core.split(aio.RawAudioSource(rawf, r2, s2, c2), **kw2)
                got = regions_sig(got, r2)
                msg = None if got == base2 else "after the file was rewritten, container %s gives %r, the new audio gives %r" % (
                    kind, [(s_, len(x)) for s_, x in got][:5], [(s_, len(x)) for s_, x in base2][:5])
            except Exception as exc:
                msg = "after the file was rewritten, container %s raised %r" % (kind, exc)
            if msg:
                complain("rewritten file %s format=%r" % (kind, f2), msg, {"what": "rewrite", "container": kind})
    # file sources the caller has already opened and read from: the audio supplied is what is left
    with wave.open(wavf, "wb") as fp:
        fp.setframerate(rate)
        fp.setsampwidth(sw)
        fp.setnchannels(ch)
        fp.writeframes(data)
    with open(rawf, "wb") as fp:
        fp.write(data)
    for adv in (W, 2 * W + 1):
        if adv * bps_ >= len(data):
            continue
        rest = data[adv * bps_ :]
        refr = regions_sig(core.split(rest, sr=rate, sw=sw, ch=ch, **kw0), rate)
        for kind in ("wave_source", "raw_source", "reader_over_wave"):
            cov["evaluations"] += 1
            try:
                if kind == "wave_source":
                    src = aio.WaveAudioSource(wavf)
                elif kind == "raw_source":
                    src = aio.RawAudioSource(rawf, rate, sw, ch)
                else:
                    src = aio.WaveAudioSource(wavf)
                src.open()
                src.read(adv)
                if kind == "reader_over_wave":
                    got = regions_sig(core.split(util.AudioReader(src, block_dur=aw), **{k: v for k, v in kw0.items() if k != "analysis_window"}), rate)
                else:
                    got = regions_sig(core.split(src, **kw0), rate)
                msg = None if got == refr else "%s opened and advanced by %d samples gives %r, the remaining audio gives %r" % (
                    kind, adv, [(s_, len(x)) for s_, x in got][:5], [(s_, len(x)) for s_, x in refr][:5])
            except Exception as exc:
                msg = "%s opened and advanced raised %r" % (kind, exc)
            if msg:
                complain("pre-opened %s adv=%d" % (kind, adv), msg, {"what": "preopen", "container": kind})
    cov["samples"].append({"sw": sw, "ch": ch, "rate": rate, "samples_per_window": W, "pattern": pattern, "tail": tail})
    import shutil

    shutil.rmtree(d, ignore_errors=True)
    return {"cov": cov, "viol": viol}


# ---------------------------------------------------------------------------


def run(prop, tier):
    lib()
    quick = tier == "quick"
    seed = common.seed()
    if prop == "C05":
        rep = common.Report(prop, tier, "bounded-exhaustive enumeration of formats x window sizes x activity patterns (with partial "
                            "last window) x duration tuples, split() compared with the composed model (exact energy decision -> "
                            "window counts -> greedy segmentation) on position-coded audio")
        Lw = 5 if quick else 7
        tuples = tuples_g3()
        tasks = []
        combos = []
        for sw, ch in itertools.product((1, 2, 4), (1, 2, 3)):
            for (W, rate, aw) in ((1, 10, "0.1"), (2, 20, "0.1"), (3, 30, "0.1"), (7, 70, "0.1"), (1, 10, "0.15"), (3, 16000, "0.0002")):
                combos.append((sw, ch, W, rate, aw))
        for i, (sw, ch, W, rate, aw) in enumerate(combos):
            if quick and (i + seed) % 2 and W in (2, 3) and ch != 1:
                continue
            for part in range(4):
                tasks.append((sw, ch, W, rate, Decimal(aw), Lw if W < 7 or not quick else Lw - 1, tuples[part::4], part))
        rep.cov["rule"] = ("one evaluation = one split() call on position-coded audio compared region by region with the model; "
                           "non-trivial when the input holds activity; distinct by construction")
        rep.cov["bounds"] = {"windows": "<=%d + partial last window" % Lw, "tuples": len(tuples), "format_window_combos": len(combos)}
        ipats = ["", "A", "aA", "AaA", "AAAA", "aAAaA", "AAaaAA"] + ([] if quick else ["AaAaA", "AAAAAAA"])
        itup = [(1, 1, 0, 0), (1, 2, 0, 0), (2, 3, 1, 0), (1, 3, 1, 4), (2, 2, 0, 2), (1, 3, 2, 6)]
        itasks = [("i", (ipats, [t])) for t in itup]
        itasks += [("l", t) for t in ((2, 1, 4, 16000), (1, 2, 8, 8000), (4, 3, 2, 16), (2, 2, 16, 44100))]
        # window sizes whose floating-point product with the rate falls just below a whole number of samples
        itasks += [("a", (r_, 4 if quick else 12)) for r_ in (11025, 44100, 48000, 16000, 96000, 22050, 100, 8000)]
        # two split() calls running in two threads: all schedules with <= 1 preemptions inside core.py
        itasks += [("t", ("AAaA", "AaAA", (1, 3, 1, 0), 1)), ("t", ("AAA", "aAA", (2, 2, 0, 4), 1))]
        if not quick:
            itasks += [("t", ("AaAA", "AAaA", (1, 2, 1, 2), 1)), ("t", ("aAAa", "AAAA", (1, 3, 0, 6), 1))]
        for rate, W, aw in ((48000, 960, "0.02"), (100, 1, "0.01"), (44100, 441, "0.01")):
            step = 131 if rate == 100 else 22
            for lo in range(0, 131, step):
                itasks.append(("s", (rate, W, aw, lo, min(lo + step, 131))))
        for part in common.pmap(_c05_dispatch, [("w", t) for t in tasks] + itasks):
            rep.merge(part)
    elif prop == "C06":
        rep = common.Report(prop, tier, "bounded-exhaustive enumeration of (min_dur, max_dur, max_silence, window, rate) over decimal "
                            "grids with exact rational expected window counts, observed behaviourally through discriminating "
                            "probe signals; full accept/reject table")
        c06_signed_table(rep)
        ws = ["0.001", "0.005", "0.01", "0.015", "0.02", "0.025", "0.03", "0.05", "0.1", "0.25", "0.3", "0.0125", "0.0025"]
        kq = [1, 2, 3, 5, 7, 12, 25]
        kt = [1, 2, 3, 4, 5, 6, 7, 9, 12, 14, 19, 23, 25, 29, 33, 41, 47, 55, 58, 60]
        extra = [k for k in range(1, 61) if k not in kq]
        stripe = [k for i, k in enumerate(extra) if i % 6 == seed % 6][:4]
        tasks = []
        for w in ws:
            for rate in (100, 1000, 8000, 16000):
                if Decimal(w) * rate > 400:
                    continue
                for use_reader in (False, True):
                    ks = (kq + stripe) if quick else kt
                    if rate >= 8000:
                        ks = [k for k in ks if k <= 7]
                    if quick and use_reader and rate not in (100, 1000):
                        continue
                    tasks.append((w, rate, ks, use_reader))
        # probes must discriminate every neighbour tuple
        nd = 0
        for mx in range(1, 13):
            for mn in range(1, mx + 1):
                for ms in range(0, mx):
                    ok, nb = discriminating(mn, mx, ms)
                    nd += 1
                    if not ok:
                        print("HARNESS-ERROR: probe cannot tell (%d,%d,%d) from %r" % (mn, mx, ms, nb))
                        return 2
        rep.cov["probe_tuples_checked_discriminating"] = nd
        rep.cov["rule"] = ("one evaluation = one (min_dur,max_dur,max_silence,window,rate,input kind) tuple: either rejected with "
                           "ValueError as the statement requires, or split() run on a probe signal whose segmentation differs for "
                           "every neighbouring window count; non-trivial = accepted tuples whose observed events were compared")
        rep.cov["bounds"] = {"windows": ws, "k": kq + stripe if quick else kt, "rates": [100, 1000, 8000, 16000]}
        xt = [("L", (w_, 100)) for w_ in ("0.01", "0.05", "0.1")] + [("L", ("0.01", 1000))]
        xt += [("H", (w_, r_)) for w_, r_ in (("0.02", 100), ("0.1", 100), ("0.01", 1000), ("0.05", 8000))]
        # the same durations under different windows of equal size in samples, one call after the other
        hd = [(a, b, c) for a in ("0.03", "0.06", "0.09") for b in ("0.06", "0.12", "0.18", "0.3") for c in ("0", "0.03", "0.045", "0.06")]
        xt += [("Y", (100, ("0.01", "0.015", "0.012"), hd)), ("Y", (100, ("0.02", "0.025"), hd)), ("Y", (1000, ("0.01", "0.0105"), hd)),
               ("Y", (16000, ("0.05", "0.05001"), [("0.1", "0.25", "0.05"), ("0.15003", "0.30006", "0.10002"), ("0.05", "0.50005", "0.05")]))]
        for part in common.pmap(_c06_dispatch, [("w", t) for t in tasks] + xt):
            rep.merge(part)
        rep.assumptions += ["quotients engineered to fall between 1e-10 and 1e-8 of an integer are outside the alphabet "
                            "(counted as ambiguous_skipped)"]
    else:
        rep = common.Report(prop, tier, "bounded-exhaustive enumeration of recordings x containers x parameter spellings x duration "
                            "tuples; every variant compared with the raw-bytes / long-name baseline")
        recs = [(2, 1, 10, 1, "AaAAaaA", 0), (1, 2, 20, 2, "aAAaA", 1), (4, 3, 30, 3, "AAaAa", 2), (2, 2, 16, 2, "AaaAAAAa", 0),
                (1, 1, 8, 4, "AAaaAa", 3), (4, 1, 10, 1, "aAaAAAAA", 0),
                (2, 1, 16000, 4, "AaAAaAAA", 2), (2, 2, 8000, 3, "AAAaAAaA", 0),  # sub-millisecond sample periods
                (2, 1, 16000, 125, "AaAAaAAA", 2), (1, 1, 44100, 441 * 3 + 1, "AAaA", 7),  # windows that are no whole number of microseconds
                (2, 2, 96000, 19200, "AaAA", 777), (1, 3, 65536, 32769, "AAa", 5),  # windows larger than 16384 / 32768 samples
                (2, 1, 16000, 800, ("aaAAAaAAAAaa" * 9)[:100], 333)]  # > 64 KiB, window size not dividing 65536
        if not quick:
            recs += [(2, 3, 10, 1, "AAAAAAAA", 0), (2, 2, 20, 2, "", 1), (1, 3, 9, 3, "aaaa", 0), (4, 2, 70, 7, "AaAaA", 5)]
            # every activity pattern of up to 5 windows in two formats
            for n_ in range(1, 6):
                for bits_ in range(1 << n_):
                    pat_ = "".join("A" if (bits_ >> i_) & 1 else "a" for i_ in range(n_))
                    recs.append(((2, 1, 10, 1) if bits_ % 2 else (1, 2, 12, 3)) + (pat_, bits_ % 3))
        tasks = [r + (tier,) for r in recs]
        rep.cov["rule"] = ("one evaluation = one split() call through one container / spelling / max_read variant compared with "
                           "the baseline; non-trivial when the baseline has regions")
        rep.cov["bounds"] = {"recordings": len(recs)}
        for part in common.pmap(c09_work, tasks):
            rep.merge(part)
        rep.assumptions += ["PyAudioSource and pydub-decoded formats cannot be constructed in this image; stdin is a BytesIO"]
    rep.cov["states"] = max(rep.cov.get("states", 0), rep.cov["evaluations"])
    rep.cov["transitions"] = max(rep.cov.get("transitions", 0), rep.cov["evaluations"])
    rep.cov["traces_validated_against_impl"] = rep.cov["evaluations"]
    return rep.finish()


def _c06_dispatch(t):
    if t[0] == "L":
        return c06_large(t[1])
    if t[0] == "H":
        return c06_hop(t[1])
    if t[0] == "Y":
        return c06_history(t[1])
    return c06_work(t[1])


def _c05_dispatch(t):
    if t[0] == "l":
        return c05_long(t[1])
    if t[0] == "s":
        return c05_starts(t[1])
    if t[0] == "t":
        return c05_threads(t[1])
    if t[0] == "a":
        return c05_awkward(t[1])
    return c05_work(t[1]) if t[0] == "w" else c05_interleaved(t[1])


def replay(case):
    lib()
    k = case["kind"]
    if k == "c05i":
        part = c05_interleaved(([case["a"], case["b"]], [tuple(case["tuple"])]))
        return part["viol"][0][1] if part["viol"] else None
    if k == "c05a":
        part = c05_awkward((case["rate"], case["count"]))
        return part["viol"][0][1] if part["viol"] else None
    if k == "c05t":
        part = c05_threads((case["a"], case["b"], tuple(case["tuple"]), case["bound"]))
        return part["viol"][0][1] if part["viol"] else None
    if k == "c05":
        mn, mx, ms, mode = case["tuple"]
        return c05_case(case["sw"], case["ch"], case["rate"], case["W"], Decimal(case["aw"]), tm.parse(case["flags"]),
                        case["tail"], case["tail_flag"], mn, mx, ms, mode, case["as_region"])
    if k == "c06":
        w = Decimal(case["w"])
        mind, maxd, sil = Decimal(case["min"]), Decimal(case["max"]), Decimal(case["sil"])
        # re-run just this tuple through the worker logic
        part = c06_single(case["w"], case["rate"], mind, maxd, sil, case["reader"])
        return part
    if k == "c06hist":
        part = c06_history((case["rate"], tuple(case["windows"]), [tuple(d) for d in case["durs"]]))
        return part["viol"][0][1] if part["viol"] else None
    if k == "c06hop":
        part = c06_hop((case["w"], case["rate"]))
        return part["viol"][0][1] if part["viol"] else None
    if k == "c06signed":
        rep = common.Report("C06", "quick", "")
        c06_signed_table(rep)
        return rep.violations[0][1] if rep.violations else None
    if k == "lazy":
        rep = common.Report("C08", "quick", "")
        split_laziness(rep, len(case["flags"]))
        return rep.violations[0][1] if rep.violations else None
    if k == "c09":
        part = c09_work((case["sw"], case["ch"], case["rate"], case["W"], case["pattern"], case["tail"], "quick"))
        return part["viol"][0][1] if part["viol"] else None


def c06_history(task):
    """Calls made one after the other in one process, with the same durations and rate but different analysis windows that
    give the same number of samples per window: each call counts in its own window (nothing is carried over)."""
    rate, wlist, durs = task
    cov = {"evaluations": 0, "distinct_nontrivial": 0, "ambiguous_skipped": 0, "samples": []}
    viol = []
    for mind, maxd, sil in durs:
        mind, maxd, sil = Decimal(mind), Decimal(maxd), Decimal(sil)
        if any(ambiguous(Fraction(x) / Fraction(Decimal(w))) for x in (mind, maxd, sil) for w in wlist):
            cov["ambiguous_skipped"] += 1
            continue
        for seq in itertools.permutations(wlist, 2):
            seq = seq + (seq[0],)
            for i, w in enumerate(seq):
                cov["evaluations"] += 1
                cov["distinct_nontrivial"] += 1
                msg = c06_single(w, rate, mind, maxd, sil, False)
                if msg and len(viol) < 3:
                    viol.append(("history rate=%d windows=%s durations=%s/%s/%s call#%d" % (rate, ",".join(seq), mind, maxd, sil, i + 1),
                                 "call #%d of the sequence analysis_window = %s (same durations, same rate, %d sample(s) per window each): %s" % (
                                     i + 1, " then ".join(seq), int(float(Decimal(w)) * rate), msg),
                                 {"kind": "c06hist", "rate": rate, "windows": list(wlist), "durs": [[str(mind), str(maxd), str(sil)]]}))
    cov["samples"].append({"history_rate": rate, "windows": list(wlist), "duration_triples": len(durs)})
    return {"cov": cov, "viol": viol}


def c06_single(w_s, rate, mind, maxd, sil, use_reader):
    L = lib()
    w = Decimal(w_s)
    w_f = float(w)
    bs = int(w_f * rate)
    w_eff = Fraction(bs, rate) if (use_reader and bs > 0) else Fraction(w)
    if bs == 0:
        want_err, mn, mx, ms = True, 1, 1, 0
    else:
        mn, mx, ms = counts(Fraction(mind), Fraction(maxd), Fraction(sil), w_eff)
        want_err = mn > mx or ms >= mx
    try:
        if want_err:
            data = b"\x01" * (max(bs, 1) * 4)
            kw = dict(min_dur=float(mind), max_dur=float(maxd), max_silence=float(sil))
            if use_reader:
                list(L["core"].split(L["util"].AudioReader(data, block_dur=w_f, sr=rate, sw=1, ch=1), **kw))
            else:
                c06_split(data, rate, w_f, kw, c06_variant(mind, maxd, sil))
            return "accepted; the statement requires ValueError"
        for mode in PROBE_MODES:
            got = c06_observe(float(mind), float(maxd), float(sil), w_f, rate, use_reader, mn, mx, ms, mode)
            pf, tmode = probe_for(mn, mx, ms, mode)
            exp = tm.segment(pf, mn, mx, ms, tmode)
            if got != exp:
                return "events %r; with %d/%d/%d windows they would be %r" % (got[:6], mn, mx, ms, exp[:6])
        return None
    except ValueError as exc:
        return None if want_err else "ValueError %s; the statement accepts (windows %d/%d/%d)" % (str(exc)[:80], mn, mx, ms)

"""Reference models and monitors for the stream tokenizer (C01-C04, C08, C20).

Everything here is written against the property statements, with list
slicing and whole-stream rules, deliberately not shaped like auditok's
4-state automaton.  A stream is a sequence of booleans (True = valid frame).
Parameter tuples are (mn, mx, ms, im, is_, mode).
"""

import operator

MODES = (0, 2, 4, 6)


def grid(M, im_max=None, is_vals=(0, 1, 2, 3)):
    """G(M): every accepted tuple with max_length <= M, simplest first."""
    out = []
    for mx in range(1, M + 1):
        for mn in range(1, mx + 1):
            for ms in range(-1, mx):
                for im in range(0, mx):
                    if im_max is not None and im > im_max:
                        continue
                    # init_max_silence only matters once an initial phase is configured (init_min > 1): for init_min 0 / 1
                    # one large value stands for "given but irrelevant"
                    for is_ in ((0, mx + 1) if im <= 1 else is_vals):
                        for mode in MODES:
                            out.append((mn, mx, ms, im, is_, mode))
    return out


def accepted(mn, mx, ms, im, is_, mode):
    """C02's accept/reject table, from the statement."""
    if mx <= 0 or mn <= 0 or mn > mx:
        return False
    if ms >= mx or im >= mx:
        return False
    return mode in MODES


def show(valid):
    return "".join("A" if v else "a" for v in valid)


def parse(s):
    return [c == "A" for c in s]


# ---------------------------------------------------------------------------
# C04: declarative, whole-stream greedy segmentation (init_min <= 1)


def segment(valid, mn, mx, ms, mode):
    """Expected [(start, end)] for init_min <= 1, from the statement of C04."""
    strict = bool(mode & 2)
    drop = bool(mode & 4)
    n = len(valid)
    ms = max(ms, 0)
    vidx = [i for i, v in enumerate(valid) if v]
    if not vidx:
        return []
    stretches = []
    s = p = vidx[0]
    for i in vidx[1:]:
        if i - p - 1 > ms:
            stretches.append((s, p))
            s = i
        p = i
    stretches.append((s, p))
    toks = []
    for s, p in stretches:
        e = min(p + ms, n - 1)  # up to ms trailing invalid frames
        pos = s
        first = True
        while pos <= e:
            pe = min(pos + mx - 1, e)
            if pe - pos + 1 == mx:
                toks.append((pos, pe))
            else:
                if drop:
                    while pe >= pos and not valid[pe]:
                        pe -= 1
                if pe >= pos and any(valid[pos : pe + 1]):
                    ln = pe - pos + 1
                    if ln >= mn or (not strict and not first):
                        toks.append((pos, pe))
            first = False
            pos += mx
    return toks


class RefTok:
    """Frame-at-a-time version of `segment` (init_min <= 1).

    Abstract state (what `key()` returns) is index-free: (active, piece length,
    trailing-silence run of the stretch, piece holds a valid frame, first piece).
    """

    def __init__(self, mn, mx, ms, mode):
        self.mn, self.mx, self.ms = mn, mx, max(ms, 0)
        self.strict = bool(mode & 2)
        self.drop = bool(mode & 4)
        self.i = 0
        self.active = False
        self.piece = []  # validity flags of the open piece
        self.start = 0
        self.run = 0
        self.first = True

    def key(self):
        if not self.active:
            return (0, 0, 0, 0, 0)
        return (1, len(self.piece), self.run, int(any(self.piece)), int(self.first))

    def _final(self):
        p = self.piece
        s = self.start
        self.active = False
        self.piece = []
        if self.drop:
            while p and not p[-1]:
                p = p[:-1]
        if p and any(p):
            if len(p) >= self.mn or (not self.strict and not self.first):
                return (s, s + len(p) - 1)
        return None

    def step(self, v):
        """Consume one frame; return a delivered (start, end) or None."""
        i = self.i
        self.i += 1
        if not self.active:
            if not v:
                return None
            self.active, self.piece, self.start = True, [], i
            self.run, self.first = 0, True
        elif not v and self.run >= self.ms:
            return self._final()
        self.piece.append(v)
        self.run = 0 if v else self.run + 1
        if len(self.piece) == self.mx:
            tok = (self.start, i)
            self.piece, self.first, self.start = [], False, i + 1
            return tok
        return None

    def eof(self):
        if self.active:
            return self._final()
        return None


def reftok_run(valid, mn, mx, ms, mode):
    r = RefTok(mn, mx, ms, mode)
    out = []
    for v in valid:
        t = r.step(v)
        if t is not None:
            out.append(t)
    t = r.eof()
    if t is not None:
        out.append(t)
    return out


# ---------------------------------------------------------------------------
# monitors: each returns None or a short complaint


def check_c01(frames, toks):
    """frames: the stream's own frame objects; toks: [(data, s, e)]."""
    n = len(frames)
    prev_e = -1
    for data, s, e in toks:
        try:
            s, e = operator.index(s), operator.index(e)  # any integral type; compared by value
        except TypeError:
            return "non-integer indices %r %r" % (s, e)
        if not (0 <= s <= e < n):
            return "indices out of range: (%d,%d) for %d frames" % (s, e, n)
        if e - s + 1 != len(data):
            return "end-start+1=%d but %d frames delivered" % (e - s + 1, len(data))
        if s <= prev_e:
            return "token (%d,%d) overlaps or precedes previous end %d" % (s, e, prev_e)
        for k, f in enumerate(data):
            if f is not frames[s + k]:
                return "frame %d of token (%d,%d) is not stream frame %d" % (k, s, e, s + k)
        prev_e = e
    return None


def check_c02(toks, mn, mx, mode):
    strict = bool(mode & 2)
    prev = None
    for data, s, e in toks:
        ln = len(data)
        if ln > mx:
            return "token (%d,%d) has %d frames > max_length %d" % (s, e, ln, mx)
        if ln < mn:
            if strict:
                return "strict mode delivered %d frames < min_length %d at (%d,%d)" % (ln, mn, s, e)
            if prev is None or len(prev[0]) != mx or prev[2] + 1 != s:
                return "short token (%d,%d) (%d < %d) does not follow a cut token" % (s, e, ln, mn)
        prev = (data, s, e)
    return None


def check_c03(toks, mn, mx, ms, im, is_, mode):
    """toks: [(flags, s, e)] where flags are the validity of the delivered frames
    themselves (re-derived from the frames, not from the reported indices)."""
    drop = bool(mode & 4)
    bound = max(ms, 0)
    if im > 1:
        bound = max(bound, is_)
    prev = None
    for data, s, e in toks:
        flags = list(data)
        if not any(flags):
            return "token (%d,%d) holds no valid frame" % (s, e)
        contin = prev is not None and len(prev[0]) >= mx and prev[2] + 1 == s
        if not flags[0] and not contin:
            return "token (%d,%d) starts with an invalid frame and continues nothing" % (s, e)
        if drop and len(flags) < mx and not flags[-1]:
            return "dropping on, uncut token (%d,%d) ends with an invalid frame" % (s, e)
        carry = 0
        if contin:
            pf = list(prev[0])
            while carry < len(pf) and not pf[-1 - carry]:
                carry += 1
        run = carry
        worst = 0
        for v in flags:
            run = 0 if v else run + 1
            worst = max(worst, run)
        if worst > bound:
            return "token (%d,%d) has %d consecutive invalid frames > %d" % (s, e, worst, bound)
        prev = (data, s, e)
    return None


def check_c08_timing(valid, handovers, mx, ms):
    """handovers: [(s, e, frames_read, nones_read)] recorded when the consumer
    received each token.  The deciding frame is derived from the stream itself:
    the token's last frame if it is max_length long, else the (ms+1)-th invalid
    frame after its last valid frame, else (the stream ends first) end of stream."""
    n = len(valid)
    ms = max(ms, 0)
    for s, e, reads, nones in handovers:
        ln = e - s + 1
        if ln >= mx:
            want = (e + 1, 0)
            why = "cut at max_length, decided by frame %d" % e
        else:
            lv = e
            while lv >= s and not valid[lv]:
                lv -= 1
            run = 0
            j = lv + 1
            while j < n and not valid[j] and run < ms + 1:
                run += 1
                j += 1
            if run == ms + 1:
                want = (lv + ms + 2, 0)
                why = "ended by excess silence, decided by frame %d" % (lv + ms + 1)
            else:
                want = (n, 1)
                why = "ended by end of stream"
        if (reads, nones) != want:
            return "token (%d,%d) %s: handed over after %d frames read and %d end-of-stream request(s), expected %d and %d" % (
                s, e, why, reads, nones, want[0], want[1])
    return None


def check_prefix(full_hand, pref_toks, k):
    """full_hand: hand-overs [(s,e,reads,nones)] of the whole stream;
    pref_toks: [(s,e)] of the prefix of length k."""
    decided = [(s, e) for s, e, reads, nones in full_hand if not nones and reads <= k]
    if pref_toks == decided:
        return None
    if len(pref_toks) == len(decided) + 1 and pref_toks[:-1] == decided:
        ls, le = pref_toks[-1]
        if len(full_hand) > len(decided):
            fs, fe = full_hand[len(decided)][:2]
            if fs == ls and le <= fe:
                return None
    return "prefix of length %d gives %r, whole stream decides %r within it (all: %r)" % (
        k, pref_toks, decided, [(h[0], h[1]) for h in full_hand])

"""SCHED - exhaustive schedule exploration of auditok's real worker threads.

Interposition (installed by `install()`, all from outside the repository):
  auditok.workers.Queue        := CtlQueue      (looked up at call time in Worker.__init__)
  auditok.workers.Worker.start := ctl_start     (class attributes shadowing Thread's)
  auditok.workers.Worker.join  := ctl_join
  auditok.cmdline.time / .threading := shims    (only by harnesses that run cmdline.main)

Controlled threads are real OS threads running the real run() bodies; they pass
a baton (one semaphore each), so exactly one runs at a time, from one scheduling
point to the next.  A schedule is the list of indices chosen among the enabled
alternatives at each point (canonical order: running thread first if enabled,
then ascending thread id, timeout alternatives last, interrupt alternative last).
"""

import collections
import gc
import re
import sys
import threading
import time
import _thread
from queue import Empty, Full


class Abort(BaseException):
    """Unwinds a controlled thread when the execution is over."""


class HarnessError(Exception):
    pass


def _signal(lock):
    try:
        lock.release()
    except RuntimeError:
        pass


WATCHDOG_S = 300.0  # generous: checks may share the machine with others
STEP_LIMIT = 20000  # per execution; directed runs on long streams use STEP_LIMIT_DIRECTED
STEP_LIMIT_DIRECTED = 120000  # directed runs on long streams (a livelock is reported, well before the watchdog)


def msgid(m):
    if isinstance(m, str):
        return m
    if isinstance(m, bytes):
        return ("b", hash(m), len(m))
    if isinstance(m, tuple) and len(m) == 2 and hasattr(m[1], "data"):
        return ("det", m[0], hash(m[1].data), getattr(m[1], "start", None))
    return repr(m)


class _T:
    __slots__ = ("tid", "name", "sem", "exited", "vc", "pending", "finished", "started", "h", "nops", "obj", "real",
                 "decision", "crash", "stepped_since_sleep")

    def __init__(self, tid, name, obj):
        self.tid, self.name, self.obj = tid, name, obj
        self.sem = _thread.allocate_lock()  # binary semaphore: acquire = wait, release = signal
        self.sem.acquire()
        self.exited = None
        self.pending = None
        self.finished = False
        self.started = False
        self.h = 0  # running hash of the visible operations and their results
        self.nops = 0
        self.real = None
        self.decision = None
        self.crash = None
        self.stepped_since_sleep = True
        self.vc = {tid: 1}  # vector clock (only maintained while a race detector is attached)


class Execution:
    """One controlled execution following `prefix`, then choice 0 everywhere."""

    cur = None

    def __init__(self, prefix=(), timeouts=0, interrupts=0, line_mode=False, stop_at_seen=None,
                 trace_files=None, policy=None):
        self.policy = policy
        self.race = None  # RaceDetector, when unsynchronised accesses are being looked for
        self.line_codes = None  # line mode: restrict scheduling points to these (filename, firstlineno) code objects
        self.prefix = list(prefix)
        self.trace = []  # chosen indices
        self.nalts = []  # number of alternatives at each point
        self.preempt = []  # was the running thread still enabled at that point
        self.sigs = []  # state signature at each point
        self.labels = []  # (tid, decision, op kind) chosen at each point, for humans
        self.th = []
        self.queues = []
        self.tbudget = timeouts
        self.ibudget = interrupts
        self.line_mode = line_mode
        self.trace_files = trace_files or TRACE_FILES[0]
        self.tls = threading.local()
        self.done_evt = threading.Event()
        self.abort = False
        self.outcome = None
        self.steps = 0
        self.running = None
        self.stop_at_seen = stop_at_seen  # set of signatures already expanded (state cache)
        self.pruned = False
        self.harness_error = None
        self.log = []  # observation log (for the determinism self-test)
        self.blocked = []  # who waited for what when a deadlock was declared

    # -- threads ---------------------------------------------------------
    def me(self):
        return getattr(self.tls, "t", None)

    def _new(self, name, obj=None):
        t = _T(len(self.th), name, obj)
        self.th.append(t)
        return t

    def _body(self, t, fn):
        self.tls.t = t
        t.sem.acquire()
        try:
            if self.abort:
                raise Abort
            if self.line_mode:
                sys.settrace(self._tracer)
            fn()
        except Abort:
            pass
        except BaseException as exc:  # the thread dies, as a real one would
            t.crash = exc
            # (the per-execution scratch directory is not part of the observation)
            # (... nor is the wording of a RecursionError, which depends on where the limit was hit)
            self.log.append(("crash", t.tid, "RecursionError" if isinstance(exc, RecursionError) else re.sub(r"/x\d+/", "/x#/", repr(exc))))
        finally:
            sys.settrace(None)
        try:
            self._finish(t)
        finally:
            t.exited.release()

    def run(self, main_fn):
        Execution.cur = self
        t = self._new("main")
        t.started = True
        self.running = t
        self._launch(t, main_fn)
        t.sem.release()
        if not self.done_evt.wait(WATCHDOG_S):
            self.harness_error = "unmodelled blocking call: no scheduling point reached for %ds (threads: %s)" % (
                WATCHDOG_S, [(x.name, x.pending and x.pending[0]) for x in self.th])
            self.abort = True
            for x in self.th:
                _signal(x.sem)
            return self
        for x in self.th:
            if x.exited is not None:
                if not x.exited.acquire(True, WATCHDOG_S):
                    self.harness_error = "thread %s did not unwind" % x.name
        Execution.cur = None
        return self

    def _launch(self, t, fn):
        t.exited = _thread.allocate_lock()
        t.exited.acquire()
        t.real = True
        _thread.start_new_thread(self._body, (t, fn))

    def spawn(self, worker):
        t = self._new(type(worker).__name__, worker)
        worker._ctl_t = t
        t.real = worker.run
        return t

    def _tracer(self, frame, event, arg):
        fn = frame.f_code.co_filename
        for suffix in self.trace_files:
            if fn.endswith(suffix):
                return self._ltrace
        return None

    def _ltrace(self, frame, event, arg):
        if event == "line" and not self.abort:
            if self.line_codes is None or (frame.f_code.co_filename, frame.f_code.co_firstlineno) in self.line_codes:
                self.point(("line", frame.f_lineno))
        return self._ltrace

    # -- happens-before bookkeeping (release: attach a copy, then tick; acquire: join) ----------
    def hb_release(self):
        me = self.me()
        snap = dict(me.vc)
        me.vc[me.tid] = me.vc.get(me.tid, 0) + 1
        return snap

    def hb_acquire(self, snap):
        if snap:
            me = self.me()
            for k, v in snap.items():
                if me.vc.get(k, 0) < v:
                    me.vc[k] = v

    # -- enabledness -----------------------------------------------------
    def _alts(self):
        alts = []
        tout = []
        intr = []
        order = list(self.th)
        run = self.running
        if run is not None and run in order:
            order.remove(run)
            order.insert(0, run)
        for t in order:
            if t.finished or not t.started or t.pending is None:
                continue
            op = t.pending
            k = op[0]
            if k in ("get_nowait", "start", "begin", "line", "enumerate", "is_alive", "qsize", "put_nowait"):
                alts.append((t, "ok"))
            elif k == "put":
                q, timeout = op[1], op[2]
                if not q._is_full():
                    alts.append((t, "ok"))
                elif timeout is not None and self.tbudget > 0:
                    tout.append((t, "timeout"))
            elif k == "get":
                q, timeout = op[1], op[2]
                if q.items:
                    alts.append((t, "ok"))
                elif timeout is not None and self.tbudget > 0:
                    tout.append((t, "timeout"))
            elif k == "join":
                if op[1].finished:
                    alts.append((t, "ok"))
                elif len(op) > 2 and op[2] is not None and self.tbudget > 0:
                    tout.append((t, "timeout"))
            elif k == "ev_wait":
                if op[1]._flag:
                    alts.append((t, "ok"))
                elif op[2] is not None and self.tbudget > 0:
                    tout.append((t, "timeout"))
            elif k == "lock":
                if op[1]._free_for(t):
                    alts.append((t, "ok"))
                elif op[2] is not None and self.tbudget > 0:
                    tout.append((t, "timeout"))
            elif k == "sleep":
                others = [x for x in self.th if x is not t and x.started and not x.finished]
                # fair yield: a sleeping poller gets the processor back only after somebody else has moved
                # (or nobody else is left); its own non-sleep steps do not count, or a poll loop would spin
                if not others or any(x.stepped_since_sleep for x in others):
                    alts.append((t, "ok"))
                if self.ibudget > 0:
                    intr.append((t, "interrupt"))
        if not self.line_mode:
            # persistent-set reduction: a thread's first (local) step, spawning a thread and an
            # enabled join commute with every operation of every other thread and neither
            # disable nor are disabled by them, so exploring that one step alone is enough
            # (starting a thread stops commuting as soon as anybody asks whether a thread is alive: REDUCE_START)
            local = ("begin", "start", "join") if REDUCE_START[0] else ("begin", "join")
            for a in alts:
                if a[1] == "ok" and a[0].pending[0] in local:
                    return [a]
        return alts + tout + intr

    def sig(self):
        return (
            tuple((t.h, t.finished, t.started, self._pend_sig(t)) for t in self.th),
            tuple(tuple(msgid(m) for m in q.items) for q in self.queues),
            self.tbudget,
            self.ibudget,
        )

    @staticmethod
    def _pend_sig(t):
        p = t.pending
        if p is None:
            return None
        if p[0] == "line":
            return p
        return p[0]

    def _exit_reached(self):
        """The interpreter exits once the main thread and every non-daemon thread have ended; daemon threads that
        are still working are killed at that point."""
        if not self.th or not self.th[0].finished:
            return False
        left = [t for t in self.th if t.started and not t.finished]
        return bool(left) and all(bool(getattr(t.obj, "daemon", False)) for t in left)

    def _switch(self, me, finishing=False):
        if self._exit_reached():
            self.outcome = "exit-kills-daemon-threads"
            self._end(me, finishing)
            return
        alts = self._alts()
        if not alts:
            if all(t.finished or not t.started for t in self.th):
                self.outcome = "done"
            else:
                self.outcome = "deadlock"
                self.blocked = [(t.name, (t.pending[0] if t.pending else None),
                                 getattr(t.pending[1], "name", None) if t.pending and len(t.pending) > 1 and t.pending[0] == "join" else None)
                                for t in self.th if t.started and not t.finished]
            self._end(me, finishing)
            return
        self.steps += 1
        if self.steps > (STEP_LIMIT_DIRECTED if self.policy is not None else STEP_LIMIT):
            self.outcome = "steplimit"
            self.blocked = [(t.name, t.pending[0] if t.pending else None) for t in self.th if t.started and not t.finished]
            self._end(me, finishing)
            return
        i = len(self.trace)
        s = self.sig()
        if i < len(self.prefix):
            c = self.prefix[i]
            if c >= len(alts):
                self.harness_error = "replay divergence at point %d: choice %d of %d alternatives" % (i, c, len(alts))
                self.outcome = "diverged"
                self._end(me, finishing)
                return
        else:
            c = self.policy(alts, self) if self.policy is not None else 0
            if self.stop_at_seen is not None and s in self.stop_at_seen:
                # equal signatures have equal futures: this subtree was (or is being) explored
                self.pruned = True
                self.outcome = "pruned"
                self._end(me, finishing)
                return
        t, dec = alts[c]
        self.sigs.append(s)
        self.trace.append(c)
        self.nalts.append(len(alts))
        self.preempt.append(alts[0][0] is self.running and alts[0][1] == "ok" and not finishing)
        self.labels.append((t.tid, dec, t.pending[0], t.name))
        if dec == "timeout":
            self.tbudget -= 1
        elif dec == "interrupt":
            self.ibudget -= 1
        t.decision = dec
        if t.pending[0] == "sleep":
            for x in self.th:
                x.stepped_since_sleep = False
        else:
            t.stepped_since_sleep = True
        self.running = t
        if t is not me:
            t.sem.release()
            if not finishing:
                me.sem.acquire()
                if self.abort:
                    raise Abort

    def _end(self, me, finishing):
        self.abort = True
        for t in self.th:
            if t is not me and t.started and not t.finished:
                _signal(t.sem)
        self.done_evt.set()
        if not finishing:
            raise Abort

    def point(self, op):
        me = self.me()
        me.pending = op
        self._switch(me)
        me.pending = None
        return me.decision

    def record(self, ev):
        """Append a visible operation + result to the calling thread's history."""
        me = self.me()
        me.h = hash((me.h, ev))
        me.nops += 1
        self.log.append((me.tid, ev))

    def _finish(self, t):
        t.finished = True
        t.pending = None
        if self.abort:
            if all(x.finished or not x.started for x in self.th):
                self.done_evt.set()
            return
        self._switch(t, finishing=True)

    def preemptions_before(self, i):
        return sum(1 for j in range(i) if self.preempt[j] and self.trace[j] != 0)


# ---------------------------------------------------------------------------
# shims


class CtlQueue:
    """queue.Queue replacement whose blocking behaviour the scheduler decides.

    Every operation that observes or changes the queue from a controlled thread is a
    scheduling point and is recorded (with its result) in that thread's history, so
    that equal state signatures really mean equal futures."""

    def __init__(self, maxsize=0):
        self.items = collections.deque()
        self.vcs = collections.deque()  # happens-before stamps travelling with the messages
        self.maxsize = maxsize
        ex = Execution.cur
        if ex is not None:
            ex.queues.append(self)

    def _ctl(self):
        ex = Execution.cur
        if ex is None or ex.me() is None or ex.abort:
            return None
        return ex

    def _is_full(self):
        return self.maxsize > 0 and len(self.items) >= self.maxsize

    def _observe(self, what, value):
        ex = self._ctl()
        if ex is not None:
            ex.point(("qsize", self))
            value = value()
            ex.record((what, value))
            return value
        return value()

    def qsize(self):
        return self._observe("qsize", lambda: len(self.items))

    def empty(self):
        return self._observe("empty", lambda: not self.items)

    def full(self):
        return self._observe("full", self._is_full)

    def task_done(self):
        pass

    def put(self, m, block=True, timeout=None):
        _check_timeout(timeout if block else None)
        ex = self._ctl()
        if ex is None:
            if self._is_full():
                raise Full
            self.items.append(m)
            self.vcs.append(None)
            return
        if not block:
            return self.put_nowait(m)
        dec = ex.point(("put", self, timeout))
        if dec == "timeout":
            ex.record(("put", "FULL-TIMEOUT"))
            raise Full
        self.items.append(m)
        self.vcs.append(ex.hb_release())
        ex.record(("put", msgid(m)))

    def put_nowait(self, m):
        ex = self._ctl()
        if ex is None:
            return self.put(m)
        ex.point(("put_nowait", self))
        if self._is_full():
            ex.record(("put_nowait", "FULL"))
            raise Full
        self.items.append(m)
        self.vcs.append(ex.hb_release())
        ex.record(("put_nowait", msgid(m)))

    def get(self, block=True, timeout=None):
        _check_timeout(timeout if block else None)
        ex = self._ctl()
        if ex is None:
            if self.items:
                if self.vcs:
                    self.vcs.popleft()
                return self.items.popleft()
            raise Empty
        if not block:
            return self.get_nowait()
        dec = ex.point(("get", self, timeout))
        if dec == "timeout":
            ex.record(("get", "TIMEOUT"))
            raise Empty
        m = self.items.popleft()
        ex.hb_acquire(self.vcs.popleft() if self.vcs else None)
        ex.record(("get", msgid(m)))
        return m

    def get_nowait(self):
        ex = self._ctl()
        if ex is None:
            if self.items:
                if self.vcs:
                    self.vcs.popleft()
                return self.items.popleft()
            raise Empty
        ex.point(("get_nowait", self))
        if self.items:
            m = self.items.popleft()
            ex.hb_acquire(self.vcs.popleft() if self.vcs else None)
            ex.record(("get_nowait", msgid(m)))
            return m
        ex.record(("get_nowait", "EMPTY"))
        raise Empty


class CtlEvent:
    """threading.Event whose blocking behaviour the scheduler decides (set = release, a successful
    is_set / wait = acquire)."""

    def __init__(self):
        self._flag = False
        self._vc = None

    def _ctl(self):
        ex = Execution.cur
        if ex is None or ex.me() is None or ex.abort:
            return None
        return ex

    def is_set(self):
        ex = self._ctl()
        if ex is None:
            return self._flag
        ex.point(("qsize", self))
        if self._flag:
            ex.hb_acquire(self._vc)
        ex.record(("is_set", self._flag))
        return self._flag

    isSet = is_set

    def set(self):
        ex = self._ctl()
        if ex is None:
            self._flag = True
            return
        ex.point(("put_nowait", self))
        self._flag = True
        self._vc = ex.hb_release()
        ex.record(("set",))

    def clear(self):
        ex = self._ctl()
        if ex is not None:
            ex.point(("put_nowait", self))
            ex.record(("clear",))
        self._flag = False

    def wait(self, timeout=None):
        _check_timeout(timeout)
        ex = self._ctl()
        if ex is None:
            return self._flag
        dec = ex.point(("ev_wait", self, timeout))
        if dec == "timeout":
            ex.record(("wait", "TIMEOUT"))
            return False
        ex.hb_acquire(self._vc)
        ex.record(("wait", True))
        return True


def _check_timeout(timeout):
    """What the real primitives do with their timeout argument before waiting: a negative number is a ValueError,
    something that is no number at all a TypeError."""
    if timeout is not None and timeout < 0:
        raise ValueError("'timeout' must be a non-negative number")


class CtlLock:
    """threading.Lock / RLock (re-entrancy counted per thread) under the scheduler."""

    def __init__(self):
        self._owner = None
        self._count = 0
        self._vc = None

    def _ctl(self):
        ex = Execution.cur
        if ex is None or ex.me() is None or ex.abort:
            return None
        return ex

    def _free_for(self, t):
        return self._owner is None or self._owner is t

    def acquire(self, blocking=True, timeout=-1):
        ex = self._ctl()
        if ex is None:
            return True
        me = ex.me()
        if not blocking:
            ex.point(("qsize", self))
            ok = self._free_for(me)
        else:
            dec = ex.point(("lock", self, None if timeout in (-1, None) else timeout))
            ok = dec != "timeout"
        if ok:
            self._owner = me
            self._count += 1
            ex.hb_acquire(self._vc)
        ex.record(("acquire", ok))
        return ok

    def release(self):
        ex = self._ctl()
        if ex is None:
            return
        self._count -= 1
        if self._count <= 0:
            self._owner = None
            self._count = 0
        self._vc = ex.hb_release()
        ex.record(("release",))

    def locked(self):
        return self._owner is not None

    def __enter__(self):
        self.acquire()
        return self

    def __exit__(self, *a):
        self.release()


def ctl_start(self):
    ex = Execution.cur
    if ex is None or ex.me() is None:
        raise HarnessError("Worker.start() outside a controlled execution")
    t = ex.spawn(self)
    ex.point(("start", t))
    t.started = True
    t.pending = ("begin",)
    t.vc = dict(ex.hb_release())
    t.vc[t.tid] = 1
    ex._launch(t, t.real)
    ex.record(("start", t.tid))


def ctl_join(self, timeout=None):
    _check_timeout(timeout)
    ex = Execution.cur
    if ex is None or ex.me() is None or ex.abort:
        return
    t = getattr(self, "_ctl_t", None)
    if t is None:
        raise RuntimeError("cannot join thread before it is started")
    dec = ex.point(("join", t, timeout))
    if dec == "timeout":
        ex.record(("join", t.tid, "TIMEOUT"))
        return
    ex.hb_acquire(t.vc)
    ex.record(("join", t.tid))


TRACE_FILES = [("auditok/workers.py",)]  # line mode: files whose lines are scheduling points


def block_forever(what="input"):
    """A controlled thread waits for something that never comes (a read on a live stream with nothing more to
    deliver): never enabled again - if nothing else can move, the execution is a deadlock."""
    ex = Execution.cur
    if ex is None or ex.me() is None or ex.abort:
        raise HarnessError("blocking call outside a controlled execution")
    ex.point(("blocked", what))
    raise HarnessError("a blocked thread was scheduled")


class LiveStdin:
    """sys.stdin stand-in for a live producer that never closes its end: reads are served while data is left, a read
    that needs more than what is left blocks for ever (under the scheduler)."""

    def __init__(self, data):
        self._d = data
        self._p = 0
        self.buffer = self
        self.taken = 0
        self.blocked_request = None

    def read(self, n=-1):
        if n is None or n < 0 or self._p + n > len(self._d):
            self.blocked_request = n
            block_forever("standard input of a live producer")
        out = self._d[self._p : self._p + n]
        self._p += n
        self.taken = self._p
        return out

    read1 = read

    def readinto(self, b):
        data = self.read(len(b))
        b[: len(data)] = data
        return len(data)

    def fileno(self):
        raise OSError("no descriptor")


_REAL_THREAD = {}
REDUCE_START = [True]
LIVENESS_OBSERVED = [False]


def ctl_is_alive(self):
    ex = Execution.cur
    t = getattr(self, "_ctl_t", None)
    if ex is None or ex.me() is None or ex.abort:
        return bool(t is not None and t.started and not t.finished)
    LIVENESS_OBSERVED[0] = True
    ex.point(("is_alive", t))
    alive = bool(t is not None and t.started and not t.finished)
    if t is not None and t.finished:
        ex.hb_acquire(t.vc)
    ex.record(("is_alive", alive))
    return alive


def ctl_ident(self):
    t = getattr(self, "_ctl_t", None)
    if t is None or not t.started:
        return None
    return 1000 + t.tid


class RaceDetector:
    """Happens-before detector for unsynchronised accesses to instance attributes of Worker objects.

    Every read / write of an instance attribute by a controlled thread is logged with the thread's
    vector clock; reading an attribute that holds a mutable container counts as a potential write of
    it (`self._cache.append(x)` is a read of `_cache`).  Two accesses to the same (object, attribute)
    by different threads, at least one a write, neither ordered before the other by the
    put->get / start / join edges, are a race.  A race is not reported as a violation: it *directs*
    a line-level search (scheduling points in the racing functions only) that looks for one."""

    def __init__(self):
        self.acc = {}  # (id(obj), attr) -> list of (tid, kind, vc snapshot, (file, firstlineno, lineno, func))
        self.races = []

    def access(self, obj, name, kind, t, frame):
        code = frame.f_code
        lst = self.acc.setdefault((id(obj), name, type(obj).__name__), [])
        if len(lst) < 400:
            lst.append((t.tid, kind, dict(t.vc), (code.co_filename, code.co_firstlineno, frame.f_lineno, code.co_name)))

    @staticmethod
    def _before(a, b):
        # a happened before b iff b's thread had learned of a's epoch
        return a[2].get(a[0], 0) <= b[2].get(a[0], 0)

    def analyse(self):
        codes = set()
        for (oid, name, cls), lst in self.acc.items():
            for i in range(len(lst)):
                a = lst[i]
                for j in range(i + 1, len(lst)):
                    b = lst[j]
                    if a[0] == b[0] or (a[1] == "r" and b[1] == "r"):
                        continue
                    if self._before(a, b) or self._before(b, a):
                        continue
                    self.races.append((cls, name, a[3], b[3]))
                    codes.add((a[3][0], a[3][1]))
                    codes.add((b[3][0], b[3][1]))
        return codes


_MUTABLE = (list, dict, set, bytearray, collections.deque)


def _hook_getattribute(self, name):
    val = object.__getattribute__(self, name)
    ex = Execution.cur
    if ex is not None and ex.race is not None and name[:2] != "__":
        t = ex.me()
        if t is not None and not ex.abort:
            try:
                inst = name in object.__getattribute__(self, "__dict__")
            except Exception:
                inst = False
            if inst and name != "_ctl_t":
                ex.race.access(self, name, "rw" if isinstance(val, _MUTABLE) else "r", t, sys._getframe(1))
            elif not inst and isinstance(val, _MUTABLE):
                # a mutable container that lives on the class: shared by every instance (keyed by the container itself)
                ex.race.access(val, "class-level " + name, "rw", t, sys._getframe(1))
    return val


def _hook_setattr(self, name, value):
    ex = Execution.cur
    if ex is not None and ex.race is not None and name != "_ctl_t":
        t = ex.me()
        if t is not None and not ex.abort:
            ex.race.access(self, name, "w", t, sys._getframe(1))
    object.__setattr__(self, name, value)


def enable_access_hooks(on):
    """Install / remove the attribute hooks on auditok.workers.Worker (they cost ~3x, so only while detecting)."""
    w = _installed["workers"].Worker
    if on:
        w.__getattribute__ = _hook_getattribute
        w.__setattr__ = _hook_setattr
    else:
        for n in ("__getattribute__", "__setattr__"):
            if n in w.__dict__:
                delattr(w, n)


def find_races(make, timeouts=0, interrupts=0, cleanup=None):
    """Runs the default schedule and one starvation schedule per thread with access logging on;
    returns (set of racing code objects as (filename, firstlineno), list of race descriptions)."""
    codes, races = set(), []
    enable_access_hooks(True)
    try:
        ex0, ctx0 = run_once(make, [], timeouts, interrupts, race=True)
        names = sorted(set(t.name for t in ex0.th))
        runs = [(ex0, ctx0)]
        for nm in names:
            runs.append(run_once(make, [], timeouts, interrupts, policy=starve_policy(nm), race=True))
        for ex, ctx in runs:
            codes |= ex.race.analyse()
            races += ex.race.races
            if cleanup:
                cleanup(ctx)
    finally:
        enable_access_hooks(False)
    seen = set()
    out = []
    for r in races:
        k = (r[0], r[1], r[2][2], r[3][2])
        if k not in seen:
            seen.add(k)
            out.append("%s.%s: %s:%d (%s) vs %s:%d (%s)" % (r[0], r[1], r[2][0].split("/")[-1], r[2][2], r[2][3],
                                                           r[3][0].split("/")[-1], r[3][2], r[3][3]))
    return codes, out


class _TimeShim:
    def __init__(self, real):
        self._real = real

    def sleep(self, secs):
        ex = Execution.cur
        if ex is None or ex.me() is None or ex.abort:
            return
        dec = ex.point(("sleep",))
        if dec == "interrupt":
            ex.record(("sleep", "INTERRUPT"))
            raise KeyboardInterrupt
        ex.record(("sleep", "ok"))

    def __getattr__(self, name):
        return getattr(self._real, name)


class _ThreadingShim:
    def __init__(self, real):
        self._real = real

    def enumerate(self):
        ex = Execution.cur
        if ex is None or ex.me() is None:
            return self._real.enumerate()
        alive = [t for t in ex.th if t.started and not t.finished]
        for t in ex.th:
            if t.finished:
                ex.hb_acquire(t.vc)
        ex.record(("enumerate", len(alive)))
        return alive

    def Event(self):
        return CtlEvent()

    def Lock(self):
        return CtlLock()

    RLock = Lock

    def __getattr__(self, name):
        return getattr(self._real, name)


class _QueueModuleShim:
    def __init__(self, real):
        self._real = real
        self.Queue = CtlQueue

    def __getattr__(self, name):
        return getattr(self._real, name)


_STATE = []  # (owner, name, pristine deep copy) of mutable module-level / class-level attributes of auditok


def snapshot_module_state():
    """Executions must not depend on what earlier executions left behind in process-wide state (a class-level
    list, a module-level dict, an lru_cache): remember the pristine value of every mutable module / class
    attribute of auditok's modules and put it back before each execution."""
    import copy
    import types

    import auditok

    del _STATE[:]
    mods = [m for n, m in sys.modules.items() if n.startswith("auditok") and isinstance(m, types.ModuleType)]
    owners = list(mods)
    for m in mods:
        for v in list(vars(m).values()):
            if isinstance(v, type) and getattr(v, "__module__", "").startswith("auditok"):
                owners.append(v)
    for o in owners:
        for name, v in list(vars(o).items()):
            if name.startswith("__"):
                continue
            if isinstance(v, (list, dict, set, bytearray, collections.deque)):
                try:
                    _STATE.append((o, name, copy.deepcopy(v)))
                except Exception:
                    pass
    _installed["cached_functions"] = [v for m in mods for v in vars(m).values() if callable(getattr(v, "cache_clear", None))]
    for o in owners:
        if isinstance(o, type):
            for v in vars(o).values():
                f = getattr(v, "__func__", v)
                if callable(getattr(f, "cache_clear", None)):
                    _installed["cached_functions"].append(f)


def restore_module_state():
    import copy

    for lk in _MODULE_LOCKS:
        lk._owner, lk._count, lk._vc = None, 0, None

    for o, name, pristine in _STATE:
        try:
            cur = vars(o).get(name)
            if cur != pristine:
                if isinstance(o, type):
                    setattr(o, name, copy.deepcopy(pristine))
                else:
                    setattr(o, name, copy.deepcopy(pristine))
        except Exception:
            pass
    for f in _installed.get("cached_functions", ()):
        try:
            f.cache_clear()
        except Exception:
            pass


_installed = {}
_MODULE_LOCKS = []  # controlled locks standing in for import-time lock objects: released before every execution


def install():
    """Interpose on the tree under test (idempotent)."""
    if _installed:
        return _installed["workers"]
    from auditok import workers, cmdline

    _installed["workers"] = workers
    if hasattr(workers, "Queue"):
        workers.Queue = CtlQueue
    # start / join / is_alive / ident are interposed where Worker inherits them (threading.Thread), for Worker
    # instances only: a Worker subclass - or a changed Worker - that overrides one of them and calls super() still
    # runs its own code and reaches the controlled primitive through it
    import threading as _thr

    W = workers.Worker
    if "start" not in _REAL_THREAD:
        _REAL_THREAD.update(start=_thr.Thread.start, join=_thr.Thread.join, is_alive=_thr.Thread.is_alive, ident=_thr.Thread.ident)

        def _start(self):
            return ctl_start(self) if isinstance(self, _installed["workers"].Worker) else _REAL_THREAD["start"](self)

        def _join(self, timeout=None):
            return ctl_join(self, timeout) if isinstance(self, _installed["workers"].Worker) else _REAL_THREAD["join"](self, timeout)

        def _is_alive(self):
            return ctl_is_alive(self) if isinstance(self, _installed["workers"].Worker) else _REAL_THREAD["is_alive"](self)

        def _ident(self):
            return ctl_ident(self) if isinstance(self, _installed["workers"].Worker) else _REAL_THREAD["ident"].fget(self)

        _thr.Thread.start, _thr.Thread.join, _thr.Thread.is_alive, _thr.Thread.ident = _start, _join, _is_alive, property(_ident)
    # synchronisation primitives the module may have imported by name
    for name, ctl in (("Event", CtlEvent), ("Lock", CtlLock), ("RLock", CtlLock)):
        if hasattr(workers, name):
            setattr(workers, name, ctl)
    import threading as _th
    import time as _tm

    import queue as _q

    for mod in (cmdline, workers):
        if hasattr(mod, "time") and getattr(mod, "time") is _tm:
            mod.time = _TimeShim(_tm)
        if hasattr(mod, "queue") and getattr(mod, "queue") is _q:
            mod.queue = _QueueModuleShim(_q)
    # every auditok module: a `threading` it imported becomes the shim, lock / event classes imported by name become the
    # controlled ones, and lock OBJECTS that already exist at module or class level (created at import time) are replaced
    # by controlled locks - a real lock would block a controlled thread outside any scheduling point
    import types as _types

    lock_types = (type(_th.Lock()), type(_th.RLock()))
    del _MODULE_LOCKS[:]
    mods = [m for n, m in list(sys.modules.items()) if n.startswith("auditok") and isinstance(m, _types.ModuleType)]
    for mod in mods:
        if getattr(mod, "threading", None) is _th:
            mod.threading = _ThreadingShim(_th)
        for name, ctl in (("Event", CtlEvent), ("Lock", CtlLock), ("RLock", CtlLock)):
            if getattr(mod, name, None) is getattr(_th, name):
                setattr(mod, name, ctl)
        owners = [mod] + [v for v in vars(mod).values() if isinstance(v, type) and getattr(v, "__module__", "").startswith("auditok")]
        for o in owners:
            for name, v in list(vars(o).items()):
                if isinstance(v, lock_types):
                    lk = CtlLock()
                    try:
                        setattr(o, name, lk)
                        _MODULE_LOCKS.append(lk)
                    except Exception:
                        pass
    snapshot_module_state()
    return workers


# ---------------------------------------------------------------------------
# exploration


class Stats:
    def __init__(self):
        self.executions = 0
        self.pruned = 0
        self.states = 0
        self.transitions = 0
        self.max_points = 0
        self.outcomes = collections.Counter()
        self.violations = []  # (schedule, message)
        self.cap_hit = None
        self.stack = None
        self.sample = None
        self.wall = 0.0


def starve_policy(name):
    """Directed schedule: thread `name` runs only when nothing else can, and a producer blocked
    on a full queue gives up (its put times out) before the starved thread is let in.  An idle
    consumer's timeout is never preferred over progress, so the schedule is finite."""

    def pol(alts, ex):
        def rank(a):
            t, dec = a
            starved = t.name == name
            if dec == "ok" and not starved:
                return 0
            if dec == "timeout" and not starved and t.pending[0] == "put":
                return 1
            if dec == "ok":
                return 2
            return 3

        return min(range(len(alts)), key=lambda i: (rank(alts[i]), i))

    return pol


def run_once(make, prefix, timeouts=0, interrupts=0, line_mode=False, stop_at_seen=None, policy=None, race=False,
             line_codes=None):
    """make() -> (main_fn, ctx).  Runs one execution; returns (execution, ctx)."""
    gc_was = gc.isenabled()
    gc.disable()
    restore_module_state()
    try:
        ex = Execution(prefix, timeouts, interrupts, line_mode, stop_at_seen, policy=policy)
        if race:
            ex.race = RaceDetector()
        ex.line_codes = line_codes
        Execution.cur = ex
        main_fn, ctx = make()
        ex.run(main_fn)
    finally:
        Execution.cur = None
        if gc_was:
            gc.enable()
    if ex.harness_error:
        raise HarnessError(ex.harness_error)
    return ex, ctx


def explore(make, check, timeouts=0, interrupts=0, line_mode=False, preemption_bound=None,
            max_executions=None, cleanup=None, max_violations=3, start_stack=None, only_root=False,
            return_leftover=False, line_codes=None, max_seconds=None, _reduce_start=True):
    """Exhaustive DFS by re-execution.

    sync mode (line_mode False): all interleavings, no preemption bound, state-cached.
    line mode: scheduling point at every line of workers.py, schedules with at most
    `preemption_bound` preemptions, no caching.
    check(ex, ctx) -> None | complaint.  cleanup(ctx) is called after each execution.
    """
    st = Stats()
    t0 = time.time()
    cached = not line_mode
    expanded = set() if cached else None
    stack = [[]] if start_stack is None else [list(p) for p in start_stack]
    if _reduce_start:
        LIVENESS_OBSERVED[0] = False
    REDUCE_START[0] = bool(_reduce_start)
    if start_stack is not None and cached:
        raise HarnessError("a split exploration cannot share a state cache")
    while stack:
        prefix = stack.pop()
        ex, ctx = run_once(make, prefix, timeouts, interrupts, line_mode, expanded, line_codes=line_codes)
        st.executions += 1
        if cached and _reduce_start and LIVENESS_OBSERVED[0]:
            # somebody asked whether a thread is alive: "start" is no longer a local step; explore again without that reduction
            if cleanup:
                cleanup(ctx)
            try:
                return explore(make, check, timeouts, interrupts, line_mode, preemption_bound, max_executions, cleanup,
                               max_violations, start_stack, only_root, return_leftover, line_codes, max_seconds, _reduce_start=False)
            finally:
                REDUCE_START[0] = True
        if st.executions == 1 and start_stack is None:
            # determinism is owned, then proved: the first schedule twice, identical observations
            ex2, ctx2 = run_once(make, prefix, timeouts, interrupts, line_mode, None, line_codes=line_codes)
            if ex2.log != ex.log or ex2.trace != ex.trace or ex2.outcome != ex.outcome:
                raise HarnessError("the same schedule gave two different observation logs")
            if cleanup:
                cleanup(ctx2)
        st.max_points = max(st.max_points, len(ex.trace))
        if ex.pruned:
            st.pruned += 1
        else:
            st.outcomes[ex.outcome] += 1
            if st.sample is None or len(ex.trace) > len(st.sample[0]):
                st.sample = (list(ex.trace), describe(ex.labels), ex.outcome)
            msg = check(ex, ctx)
            if msg:
                # a failure must reproduce before it is reported
                exr, ctxr = run_once(make, ex.trace, timeouts, interrupts, line_mode, None, line_codes=line_codes)
                msgr = check(exr, ctxr)
                if cleanup:
                    cleanup(ctxr)
                if not msgr:
                    raise HarnessError("failure did not reproduce on replay: %s" % msg)
                if len(st.violations) < max_violations:
                    st.violations.append((list(ex.trace), msg, list(ex.labels)))
        if cleanup:
            cleanup(ctx)
        # branch (an execution that ran into the step limit is a livelock: reported, not expanded)
        for i in (range(len(prefix), len(ex.trace)) if ex.outcome != "steplimit" else ()):
            if cached:
                s = ex.sigs[i]
                if s in expanded:
                    continue
                expanded.add(s)
                st.states += 1
                st.transitions += ex.nalts[i]
                for alt in range(1, ex.nalts[i]):
                    stack.append(ex.trace[:i] + [alt])
            else:
                st.transitions += 1
                cost = ex.preemptions_before(i) + (1 if ex.preempt[i] else 0)
                if preemption_bound is not None and cost > preemption_bound and ex.preempt[i]:
                    continue
                for alt in range(1, ex.nalts[i]):
                    stack.append(ex.trace[:i] + [alt])
        if only_root:
            st.stack = stack
            break
        if st.executions % 64 == 0:
            gc.collect()
        if max_seconds and time.time() - t0 > max_seconds and stack:
            if return_leftover:
                st.stack = stack
            else:
                st.cap_hit = "time cap %ds reached after %d executions with %d prefixes pending" % (max_seconds, st.executions, len(stack))
            break
        if max_executions and st.executions >= max_executions and stack:
            if return_leftover:
                st.stack = stack
            else:
                st.cap_hit = "execution cap %d reached with %d prefixes pending" % (max_executions, len(stack))
            break
        if len(st.violations) >= max_violations:
            if stack:
                st.cap_hit = "stopped after %d violations" % max_violations
            break
    gc.collect()
    if not cached:
        st.states = st.transitions
    st.wall = time.time() - t0
    return st


def minimize(make, check, trace, timeouts=0, interrupts=0, line_mode=False, cleanup=None, budget=150, line_codes=None):
    """Shrinks a violating schedule: shortest prefix after which the default continuation still
    violates, then individual deviations dropped while the violation persists.  Returns
    (schedule, message, labels) of the smallest one found."""

    def attempt(prefix):
        try:
            ex, ctx = run_once(make, prefix, timeouts, interrupts, line_mode, None, line_codes=line_codes)
        except HarnessError:
            return None
        try:
            msg = check(ex, ctx)
        finally:
            if cleanup:
                cleanup(ctx)
        return (list(ex.trace), msg, list(ex.labels)) if msg else None

    best = attempt(trace)
    if best is None:
        return None
    runs = 1
    # strip trailing default choices, then find the shortest violating prefix (linear from the front of the deviations)
    dev = [i for i, c in enumerate(trace) if c]
    for cut in [0] + [i + 1 for i in dev]:
        if runs >= budget:
            break
        r = attempt(trace[:cut])
        runs += 1
        if r:
            best = r
            trace = trace[:cut]
            break
    changed = True
    while changed and runs < budget:
        changed = False
        for i in [i for i, c in enumerate(trace) if c]:
            cand = trace[:i] + [0] + trace[i + 1:]
            r = attempt(cand)
            runs += 1
            if r:
                # keep only the prefix that still matters
                best = r
                trace = cand
                while trace and trace[-1] == 0:
                    trace.pop()
                changed = True
                break
            if runs >= budget:
                break
    keep = len(trace)
    return best[0][:max(keep, 0)] if False else trace, best[1], best[2]


def describe(labels, names=None):
    out = []
    for lab in labels:
        tid, dec, kind = lab[:3]
        n = lab[3] if len(lab) > 3 else (names[tid] if names and tid < len(names) else "T%d" % tid)
        out.append("%s#%d:%s%s" % (n, tid, kind, "" if dec == "ok" else "!" + dec))
    return out

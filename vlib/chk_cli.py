"""C15: the command line reports exactly what the API detects.

cmdline.main(argv) runs in-process under the SCHED scheduler with the default
(non-preemptive) schedule: one deterministic execution per argv, no real sleeping.
The duration formatter is enumerated separately with exact arithmetic.
"""

import io
import itertools
import os
import shutil
import subprocess
import sys
import wave
from decimal import Decimal, ROUND_HALF_EVEN
from fractions import Fraction

from . import common, sched

_L = {}


def lib():
    if not _L:
        common.import_auditok()
        import auditok
        from auditok import cmdline, cmdline_util, core, util
        from auditok import workers as w

        sched.install()
        _L.update(auditok=auditok, cmdline=cmdline, cmdline_util=cmdline_util, core=core, util=util, w=w)
    return _L


from .chk_sources import FakeStdin  # noqa: E402


# ---------------------------------------------------------------------------
# recordings: 10 ms segments at three levels (quiet / ~60 dB / ~86 dB)


def recording(spec, rate, sw, ch, chan_mask=None):
    """spec: string over {'.', 'm', 'L'}: one char = 10 ms.  chan_mask[c][i] False silences channel c in segment i."""
    seg = rate // 100
    out = bytearray()
    idx = 0
    amp = {".": 3, "m": 1000, "L": 20000}
    for i, c in enumerate(spec):
        for _ in range(seg):
            for k in range(ch):
                a = amp[c]
                if chan_mask is not None and not chan_mask[k][i % len(chan_mask[k])]:
                    a = 2
                v = a + (idx % 7) if a > 100 else (idx + k) % a if a > 1 else 0
                if idx % 2:
                    v = -v
                out += int(v).to_bytes(sw, "little", signed=True)
            idx += 1
    return bytes(out)


RECS = {
    "mono16": dict(rate=1000, sw=2, ch=1, spec="..LLLLmm..LL.mLLLLLLLLLLLLLLLLLLLLLLLLLLLLLLLLLLL....mmmmmm..L.L.LL......LLLLLLLLLLLL.."),
    "stereo16": dict(rate=2000, sw=2, ch=2, spec=".LLLLLL...mmmLLL....LLLLLLLLLLLLLLLLLLLL.LL..LLLL...",
                     mask=[[True, True, True, False, False, True], [False, True, True, True, True, False, True]]),
    "mono32": dict(rate=1000, sw=4, ch=1, spec="LLLLLLLLLLLL....LL..LL..LLmmmmLL........LLLLLLLLLLLLLLLLLLLLLLLLLLLLLLLLLLLLLLLLLLL"),
}


def rec_data(name):
    r = RECS[name]
    return recording(r["spec"], r["rate"], r["sw"], r["ch"], r.get("mask"))


# ---------------------------------------------------------------------------
# the formatter model (R1: exact arithmetic on the exact binary value)


def fmt_S(x):
    return str(Decimal(x).quantize(Decimal("0.001"), rounding=ROUND_HALF_EVEN))


def whole_ms(x):
    """floor(1000*x), or the nearest integer when 1000*x is within 1e-6 of it (returns a set)."""
    q = Fraction(x) * 1000
    fl = q.numerator // q.denominator
    out = {fl}
    if q - fl > 1 - Fraction(1, 10 ** 6):
        out.add(fl + 1)
    return out


def expected_time(fmt, x):
    """Set of acceptable renderings of x seconds with --time-format fmt."""
    if fmt == "%S":
        return {fmt_S(x)}
    if fmt == "%I":
        return {str(w) for w in whole_ms(x)}
    out = set()
    for w in whole_ms(x):
        h, r = divmod(w, 3600000)
        m, r = divmod(r, 60000)
        s, i = divmod(r, 1000)
        out.add(fmt.replace("%h", "%02d" % h).replace("%m", "%02d" % m).replace("%s", "%02d" % s).replace("%i", "%03d" % i))
    return out


# ---------------------------------------------------------------------------
# one CLI run


class Run:
    pass


def run_cli(argv_tail, rec_name, input_kind, workdir, extra_files=False):
    """Executes cmdline.main in-process under the default schedule.
    Returns Run(status, stdout, stderr, outcome, crashes)."""
    L = lib()
    r = RECS[rec_name]
    data = rec_data(rec_name)
    shutil.rmtree(workdir, ignore_errors=True)
    os.makedirs(workdir)
    argv = []
    stdin_data = None
    stdin_chunks = None
    if input_kind in ("wav", "wav_L"):
        path = os.path.join(workdir, "in.wav")
        with wave.open(path, "wb") as fp:
            fp.setframerate(r["rate"])
            fp.setsampwidth(r["sw"])
            fp.setnchannels(r["ch"])
            fp.writeframes(data)
        argv = [path] + (["-L"] if input_kind == "wav_L" else [])
    elif input_kind in ("raw", "raw_L", "raw_f"):
        path = os.path.join(workdir, "in.raw" if input_kind != "raw_f" else "in_bare")
        with open(path, "wb") as fp:
            fp.write(data)
        argv = [path, "-r", str(r["rate"]), "-c", str(r["ch"]), "-w", str(r["sw"])]
        if input_kind == "raw_L":
            argv.append("-L")
        if input_kind == "raw_f":
            argv += ["-f", "raw"]
    elif input_kind.startswith("stdin"):
        argv = ["-", "-r", str(r["rate"]), "-c", str(r["ch"]), "-w", str(r["sw"])]
        stdin_data = data
        stdin_chunks = [int(x) for x in input_kind.split(":")[1].split(",")] if ":" in input_kind else None
    elif input_kind == "raw_defaults":
        path = os.path.join(workdir, "in.raw")
        with open(path, "wb") as fp:
            fp.write(data)
        argv = [path]
    argv = argv + [a.replace("<WD>", workdir + "/") for a in argv_tail]
    res = Run()
    res.argv = argv
    res.status = "never returned"
    out, err = io.StringIO(), io.StringIO()

    def make():
        def main():
            old = sys.stdout, sys.stderr, sys.stdin, sys.argv
            sys.stdout, sys.stderr = out, err
            sys.argv = ["auditok"] + argv
            if stdin_data is not None:
                sys.stdin = FakeStdin(stdin_data, stdin_chunks)
            try:
                res.status = L["cmdline"].main(argv)
            except SystemExit as exc:
                res.status = "SystemExit(%r)" % (exc.code,)
            finally:
                sys.stdout, sys.stderr, sys.stdin, sys.argv = old

        return main, res

    ex, _ = sched.run_once(make, [], 0, 0, False, None)
    res.stdout = out.getvalue()
    res.stderr = err.getvalue()
    res.outcome = ex.outcome
    res.crashes = [(t.name, repr(t.crash)) for t in ex.th if t.crash is not None]
    return res


def api_regions(rec_name, params, input_kind="bytes"):
    L = lib()
    r = RECS[rec_name]
    data = rec_data(rec_name)
    kw = dict(sr=r["rate"], sw=r["sw"], ch=r["ch"])
    kw.update(params)
    return list(L["core"].split(data, **kw))


def expected_lines(regs, printf, time_format):
    """List of sets of acceptable lines."""
    lines = []
    for i, reg in enumerate(regs, 1):
        alts = set()
        for s in expected_time(time_format, reg.start):
            for e in expected_time(time_format, reg.end):
                for d in expected_time(time_format, reg.duration):
                    alts.add(printf.format(id=i, start=s, end=e, duration=d))
        lines.append(alts)
    return lines


def compare_lines(stdout, exp):
    """exp: one set of acceptable renderings per detection, printed in order, each followed by a newline."""
    if not exp:
        return None if stdout == "" else "printed %r, split() finds nothing" % (stdout[:80],)

    positions = {0}
    for i, alts in enumerate(exp):
        nxt = set()
        for pos in positions:
            for a in alts:
                t = a + "\n"
                if stdout.startswith(t, pos):
                    nxt.add(pos + len(t))
        if not nxt:
            pos = min(positions)
            return "output line for detection %d is %r, expected one of %r (%d detections expected, %d lines printed)" % (
                i + 1, stdout[pos : pos + 60].split("\n")[0], sorted(alts)[:3], len(exp), stdout.count("\n"))
        positions = nxt
    if len(stdout) in positions:
        return None
    return "printed %r, expected %r" % (stdout.split("\n")[:4], [sorted(a) for a in exp][:4])


def params_from(opts):
    """The split() parameters the documentation assigns to a set of CLI option values."""
    p = dict(min_dur=opts.get("n", 0.2), max_dur=opts.get("m", 5), max_silence=opts.get("s", 0.3),
             analysis_window=opts.get("a", 0.01), energy_threshold=opts.get("e", 50),
             drop_trailing_silence=bool(opts.get("d")), strict_min_dur=bool(opts.get("R")))
    if "u" in opts:
        u = opts["u"]
        try:
            u = int(u)
        except ValueError:
            pass
        p["use_channel"] = u
    if "M" in opts:
        p["max_read"] = opts["M"]
    return p


def argv_from(opts):
    a = []
    for k in ("n", "m", "s", "a", "e", "u", "M"):
        if k in opts:
            a += ["-" + k, str(opts[k])]
    if opts.get("d"):
        a.append("-d")
    if opts.get("R"):
        a.append("-R")
    return a


def check_run(res, rec_name, opts, printf="{id} {start} {end}", time_format="%S", quiet=False, tolerate=()):
    if res.outcome != "done":
        return "threads never end (%s)" % res.outcome
    crashes = [c for c in res.crashes if c[0] not in tolerate]
    if crashes:
        return "thread died: %r" % (crashes[:1],)
    if res.status != 0:
        return "exit status %r (stderr: %s)" % (res.status, res.stderr[:100])
    regs = api_regions(rec_name, params_from(opts))
    if quiet:
        return None if res.stdout == "" else "-q printed %r" % res.stdout[:60]
    return compare_lines(res.stdout, expected_lines(regs, printf, time_format))


def core_points():
    pts = []
    for n, m, s, a, e, d, R in itertools.product((0.02, 0.05), (0.1, 0.3), (0, 0.02), (0.01, 0.02), (50, 64.5), (0, 1), (0, 1)):  # -e takes fractional thresholds
        pts.append(dict(n=n, m=m, s=s, a=a, e=e, d=d, R=R))
    return pts


def work_core(task):
    rec, kind, pts, with_variants = task
    lib()
    cov = {"evaluations": 0, "distinct_nontrivial": 0, "samples": []}
    viol = []
    wd = os.path.join(common.scratch_dir(), "cli%d" % os.getpid())

    def one(opts, tail=(), printf=None, tf=None, quiet=False, key_extra=""):
        cov["evaluations"] += 1
        argv = argv_from(opts) + list(tail)
        if printf is not None:
            argv += ["--printf", printf]
        if tf is not None:
            argv += ["--time-format", tf]
        if quiet:
            argv.append("-q")
        try:
            res = run_cli(argv, rec, kind, wd)
            msg = check_run(res, rec, opts, (printf or "{id} {start} {end}").replace("\\n", "\n").replace("\\t", "\t"),
                            tf or "%S", quiet)
            if res.stdout:
                cov["distinct_nontrivial"] += 1
        except sched.HarnessError:
            raise
        except Exception as exc:
            msg = "harness could not run the program: %r" % (exc,)
        if msg and len(viol) < 8:
            key = "cli rec=%s input=%s argv=%s" % (rec, kind, " ".join(argv))
            viol.append((key, msg, {"kind": "cli", "rec": rec, "input": kind, "opts": opts, "tail": list(tail),
                                    "printf": printf, "tf": tf, "quiet": quiet}))

    for opts in pts:
        one(opts)
    if with_variants:
        r = RECS[rec]
        for opts in pts[:: max(1, len(pts) // 4)]:
            us = ["0", "1", "-1", "mix", "avg", "any"] if r["ch"] > 1 else ["0", "mix", "1", "-1"]  # mono ignores the selection
            for u in us:
                one(dict(opts, u=u))
            dur = len(rec_data(rec)) / (r["rate"] * r["sw"] * r["ch"])
            for M in (0.1, 0.105, 0.1234, 0.25, dur, dur + 1, 0.0905):
                one(dict(opts, M=M))
            for pf in ("{id} {start} {end} {duration}", "[{id}]: {start} -> {end}", "{duration}|{id}", "{start}\\t{end}\\n--"):
                one(opts, printf=pf)
            for tf in ("%S", "%I", "%h:%m:%s.%i", "%i-%s-%m-%h", "%m min %s sec %i ms %h hrs", "t=%S"):
                if tf == "t=%S":
                    continue
                one(opts, printf="{id} {start} {end} {duration}", tf=tf)
            one(opts, quiet=True)
    cov["samples"].append({"recording": rec, "input": kind, "example_argv": argv_from(pts[0])})
    shutil.rmtree(wd, ignore_errors=True)
    return {"cov": cov, "viol": viol}


# ---------------------------------------------------------------------------
# files written by -o / -O / -j, error statuses, defaults


def misc(rep, tier):
    L = lib()
    wd = os.path.join(common.scratch_dir(), "climisc")
    for rec in RECS:
        r = RECS[rec]
        data = rec_data(rec)
        opts = dict(n=0.02, m=0.3, s=0.02, a=0.01, e=50)
        regs = api_regions(rec, params_from(opts))
        for kind in ("wav", "stdin"):
            # -O: the saved stream equals the input audio
            rep.add("evaluations")
            res = run_cli(argv_from(opts) + ["-O", "<WD>out.wav"], rec, kind, wd)
            msg = check_run(res, rec, opts)
            if not msg:
                try:
                    with wave.open(os.path.join(wd, "out.wav"), "rb") as fp:
                        got = (fp.getframerate(), fp.getsampwidth(), fp.getnchannels(), fp.readframes(-1))
                    if got != (r["rate"], r["sw"], r["ch"], data):
                        msg = "-O file differs from the input audio (%d vs %d bytes, params %r)" % (len(got[3]), len(data), got[:3])
                except Exception as exc:
                    msg = "-O file unreadable: %r" % (exc,)
            if msg:
                rep.violation("cli -O rec=%s input=%s" % (rec, kind), msg, {"kind": "climisc", "what": "-O", "rec": rec, "input": kind})
            # -O raw
            rep.add("evaluations")
            res = run_cli(argv_from(opts) + ["-O", "<WD>out.raw"], rec, kind, wd)
            msg = check_run(res, rec, opts)
            if not msg:
                try:
                    got = open(os.path.join(wd, "out.raw"), "rb").read()
                    if got != data:
                        msg = "-O raw file differs from the input audio"
                except Exception as exc:
                    msg = "-O raw file unreadable: %r" % (exc,)
            if msg:
                rep.violation("cli -O raw rec=%s input=%s" % (rec, kind), msg, {"kind": "climisc", "what": "-Oraw", "rec": rec, "input": kind})
            # -T names the format of the saved stream, whatever the file is called
            for name, fmt in (("stream", "raw"), ("stream.dat", "wav"), ("stream.bin", "raw")):
                rep.add("evaluations")
                res = run_cli(argv_from(opts) + ["-O", "<WD>" + name, "-T", fmt], rec, kind, wd)
                msg = check_run(res, rec, opts)
                if not msg:
                    try:
                        if fmt == "raw":
                            got = open(os.path.join(wd, name), "rb").read()
                        else:
                            with wave.open(os.path.join(wd, name), "rb") as fp:
                                got = fp.readframes(-1)
                        if got != data:
                            msg = "-O %s -T %s: the file holds %d bytes that are not the input's %d as %s" % (name, fmt, len(got), len(data), fmt)
                    except Exception as exc:
                        msg = "-O %s -T %s: %r" % (name, fmt, exc)
                if msg:
                    rep.violation("cli -O %s -T %s rec=%s input=%s" % (name, fmt, rec, kind), msg, {"kind": "climisc", "what": "-T", "rec": rec, "input": kind})
            # -O naming a format that needs an external encoder; where none can be run the program still prints every
            # detection, keeps the stream as <name>.wav and exits with status 0
            rep.add("evaluations")
            res = run_cli(argv_from(opts) + ["-O", "<WD>out.ogg"], rec, kind, wd)
            msg = check_run(res, rec, opts)
            if not msg and not os.path.exists(os.path.join(wd, "out.ogg")):
                try:
                    with wave.open(os.path.join(wd, "out.ogg.wav"), "rb") as fp:
                        got = fp.readframes(-1)
                    if got != data:
                        msg = "-O out.ogg: the fallback out.ogg.wav holds %d bytes, the input has %d" % (len(got), len(data))
                except Exception as exc:
                    msg = "-O out.ogg without a usable encoder: no readable out.ogg.wav either: %r" % (exc,)
            if msg:
                rep.violation("cli -O ogg rec=%s input=%s" % (rec, kind), msg, {"kind": "climisc", "what": "-Oogg", "rec": rec, "input": kind})
            # -O on a run without a single detection (threshold out of reach): the stream is saved all the same
            quiet = dict(opts, e=150)
            for name in ("out.wav", "out.raw"):
                for extra in ([], ["-j", "0.1"]):
                    rep.add("evaluations")
                    res = run_cli(argv_from(quiet) + ["-O", "<WD>" + name] + extra, rec, kind, wd)
                    msg = check_run(res, rec, quiet)
                    if not msg and not extra:
                        try:
                            if name.endswith(".raw"):
                                got = open(os.path.join(wd, name), "rb").read()
                            else:
                                with wave.open(os.path.join(wd, name), "rb") as fp:
                                    got = fp.readframes(-1)
                            if got != data:
                                msg = "-O %s after a run without detections holds %d bytes, the input has %d" % (name, len(got), len(data))
                        except Exception as exc:
                            msg = "-O %s after a run without detections: %r" % (name, exc)
                    if msg:
                        rep.violation("cli -O %s no detections rec=%s input=%s %s" % (name, rec, kind, extra), msg,
                                      {"kind": "climisc", "what": "-O-quiet", "rec": rec, "input": kind})
            # -o: one file per detection
            for tpl in ("ev_{id}.wav", "ev_{id}_{start:.3f}_{end:.3f}.wav", "d{duration:.2f}_{id}.wav"):
                rep.add("evaluations")
                res = run_cli(argv_from(opts) + ["-o", "<WD>" + tpl], rec, kind, wd)
                msg = check_run(res, rec, opts)
                if not msg:
                    names = set()
                    for i, reg in enumerate(regs, 1):
                        fn = tpl.format(id=i, start=reg.start, end=reg.end, duration=reg.duration)
                        names.add(fn)
                        p = os.path.join(wd, fn)
                        try:
                            with wave.open(p, "rb") as fp:
                                got = (fp.getframerate(), fp.getsampwidth(), fp.getnchannels(), fp.readframes(-1))
                            if got != (r["rate"], r["sw"], r["ch"], reg.data):
                                msg = "file %s does not hold detection %d" % (fn, i)
                        except Exception as exc:
                            msg = "file %s for detection %d: %r" % (fn, i, exc)
                    extra = [f for f in os.listdir(wd) if f.startswith(tpl.split("{")[0]) and f not in names]
                    if extra and not msg:
                        msg = "unexpected files %r" % (sorted(extra)[:3],)
                if msg:
                    rep.violation("cli -o %s rec=%s input=%s" % (tpl, rec, kind), msg,
                                  {"kind": "climisc", "what": "-o", "tpl": tpl, "rec": rec, "input": kind})
            # -j with -O
            # ... including durations that are not a whole number of samples (rounded to the nearest, never truncated)
            for j in (0, 0.01, 0.0125, 0.1, 0.0016, 0.0999):
                rep.add("evaluations")
                res = run_cli(argv_from(opts) + ["-O", "<WD>joined.wav", "-j", str(j)], rec, kind, wd)
                msg = check_run(res, rec, opts)
                if not msg:
                    sil = b"\0" * (round(j * r["rate"]) * r["sw"] * r["ch"])
                    ref = sil.join(x.data for x in regs)
                    joined = L["core"].split_and_join_with_silence(data, j, sr=r["rate"], sw=r["sw"], ch=r["ch"], **params_from(opts))
                    try:
                        with wave.open(os.path.join(wd, "joined.wav"), "rb") as fp:
                            got = fp.readframes(-1)
                        if got != ref or (joined is not None and got != joined.data):
                            msg = "-j file differs from split_and_join_with_silence() (%d vs %d bytes)" % (len(got), len(ref))
                    except Exception as exc:
                        msg = "-j file unreadable: %r" % (exc,)
                if msg:
                    rep.violation("cli -j %s rec=%s input=%s" % (j, rec, kind), msg,
                                  {"kind": "climisc", "what": "-j", "j": j, "rec": rec, "input": kind})
        # -j without -O: status 1, nothing on stdout (whatever the value, 0 included)
        for jv in ("0.1", "0", "0.0", "2"):
            rep.add("evaluations")
            res = run_cli(argv_from(opts) + ["-j", jv], rec, "wav", wd)
            if res.status != 1 or res.stdout != "":
                rep.violation("cli -j %s without -O rec=%s" % (jv, rec), "-j %s without -O: status %r, stdout %r" % (jv, res.status, res.stdout[:60]),
                              {"kind": "climisc", "what": "-j-noO", "rec": rec})
        # unknown time format directive: an error
        rep.add("evaluations")
        try:
            res = run_cli(argv_from(opts) + ["--time-format", "%h:%q"], rec, "wav", wd)
            bad = res.status == 0 and not res.crashes and res.outcome == "done"
        except Exception:
            bad = False
        if bad:
            rep.violation("cli unknown directive rec=%s" % rec, "an unknown --time-format directive was accepted",
                          {"kind": "climisc", "what": "tf", "rec": rec})
    # documented defaults: 16 kHz mono 16-bit raw, no options at all
    spec = "." * 30 + "L" * 25 + "." * 20 + "L" * 10 + "." * 40 + "L" * 60 + "." * 10 + "L" * 30 + "." * 31 + "LL" * 300
    RECS["default16k"] = dict(rate=16000, sw=2, ch=1, spec=spec)
    for kind in ("raw_defaults",):
        rep.add("evaluations")
        res = run_cli([], "default16k", kind, wd)
        msg = check_run(res, "default16k", {})
        if not msg and not res.stdout:
            msg = "defaults recording produced no detection (harness)"
        if msg:
            rep.violation("cli defaults", msg, {"kind": "climisc", "what": "defaults"})
    # the region saver cannot write (no such directory): its thread dies, every line is still printed, status 0
    for rec in ("mono16", "stereo16"):
        rep.add("evaluations")
        opts = dict(n=0.02, m=0.3, s=0.02, a=0.01, e=50)
        res = run_cli(argv_from(opts) + ["-o", "<WD>no_such_dir/ev_{id}.wav"], rec, "wav", wd)
        msg = check_run(res, rec, opts, tolerate=("RegionSaverWorker",))
        if msg:
            rep.violation("cli failing -o rec=%s" % rec, msg[:300], {"kind": "climisc", "what": "bad-o"})
    # a long run: more than 1024 / 2048 detections, ids keep counting
    spec = "L." * 2100
    RECS["many"] = dict(rate=1000, sw=2, ch=1, spec=spec)
    rep.add("evaluations")
    opts = dict(n=0.01, m=0.01, s=0, a=0.01, e=50)
    res = run_cli(argv_from(opts), "many", "wav", wd)
    msg = check_run(res, "many", opts)
    if msg:
        rep.violation("cli many detections", msg[:400], {"kind": "climisc", "what": "many"})
    # ... and the same long run while the region saver is dead from its first detection on: every line is still printed
    rep.add("evaluations")
    RECS["many300"] = dict(rate=1000, sw=2, ch=1, spec="L." * 300)
    res = run_cli(argv_from(opts) + ["-o", "<WD>no_such_dir/ev_{id}.wav"], "many300", "wav", wd)
    msg = check_run(res, "many300", opts, tolerate=("RegionSaverWorker",))
    if msg:
        rep.violation("cli many detections, dead observer", msg[:400], {"kind": "climisc", "what": "many-bad-o"})
    # --printf: typed escapes (\\n \\t \\r) together with ordinary and non-ASCII text
    for pf in ("{id}\\t{start} -> {end}", "{id} \u00c9v\u00e9nement {start}", "{id}\\t\u00c9v\u00e9nement \u2192 {start}\\n--", "[{id}] 100% {start}",
               "{id} back\\\\slash {start}", "@{id} {start} {end}", "@", "+{id}", "{id} @{start} -{end}",
               "{id:>3}|{start:>9}|{end:<14}|{duration:^10}|", "{start:*>12} {end!s:8}"):
        rep.add("evaluations")
        opts = dict(n=0.02, m=0.3, s=0.02, a=0.01, e=50)
        for tf in ("%S", "%h:%m:%s.%i") if ":" in pf.split("{", 1)[-1] else ("%S",):
            res = run_cli(argv_from(opts) + ["--printf", pf] + (["--time-format", tf] if tf != "%S" else []), "mono16", "wav", wd)
            want_pf = pf.replace("\\n", "\n").replace("\\t", "\t").replace("\\r", "\r")
            msg = check_run(res, "mono16", opts, want_pf, time_format=tf)
            if msg:
                rep.violation("cli printf %r tf=%s" % (pf, tf), msg[:300], {"kind": "climisc", "what": "printf"})
    shutil.rmtree(wd, ignore_errors=True)


# ---------------------------------------------------------------------------
# formatter ENUM


def work_formatter(task):
    lo, hi = task
    L = lib()
    mk = L["util"].make_duration_formatter
    fmts = {"%S": mk("%S"), "%I": mk("%I"), "%h:%m:%s.%i": mk("%h:%m:%s.%i"), "%i/%s/%m/%h": mk("%i/%s/%m/%h")}
    cov = {"evaluations": 0, "distinct_nontrivial": 0, "samples": []}
    viol = []
    vals = []
    for msi in range(lo, hi):
        for off in (0, 0.0004, -0.0004, 0.00049):
            x = msi / 1000 + off
            if x >= 0:
                vals.append(x)
    for x in vals:
        for name, f in fmts.items():
            cov["evaluations"] += 1
            got = f(x)
            exp = expected_time(name, x)
            if got not in exp and len(viol) < 6:
                viol.append(("formatter %s x=%r" % (name, x), "%s renders %r as %r, expected %r" % (name, x, got, sorted(exp)),
                             {"kind": "fmt", "fmt": name, "x": x}))
            elif name != "%S" and name != "%I":
                # fields recompose to the whole-millisecond value
                cov["distinct_nontrivial"] += 1
    return {"cov": cov, "viol": viol}


def formatter_misc(rep):
    L = lib()
    mk = L["util"].make_duration_formatter
    for bad in ("%x", "%h:%m:%s.%q", "%S %z", "%%"):
        rep.add("evaluations")
        try:
            mk(bad)
            rep.violation("formatter directive %s" % bad, "unknown directive %r accepted" % bad, {"kind": "fmtbad", "fmt": bad})
        except Exception:
            pass
    f = mk("%h:%m:%s.%i")
    for x in (59.9994, 59.9996, 60.0, 3599.9996, 3600.0, 35999.9996, 36000.0, 86399.999, 360000.5, 0.0, 0.0009999):
        rep.add("evaluations")
        got = f(x)
        if got not in expected_time("%h:%m:%s.%i", x):
            rep.violation("formatter carry x=%r" % x, "renders %r as %r, expected %r" % (x, got, sorted(expected_time("%h:%m:%s.%i", x))),
                          {"kind": "fmt", "fmt": "%h:%m:%s.%i", "x": x})
        h, m, s = got.split(":")
        s, i = s.split(".")
        if not (len(m) == 2 and len(s) == 2 and len(i) == 3 and int(m) < 60 and int(s) < 60 and int(i) < 1000):
            rep.violation("formatter fields x=%r" % x, "fields out of range in %r" % got, {"kind": "fmt", "fmt": "%h:%m:%s.%i", "x": x})


# ---------------------------------------------------------------------------


def subprocess_crosscheck(rep, n):
    """Thorough only: the real entry point in a subprocess (real pipe, real sleep) gives the same output."""
    wd = os.path.join(common.scratch_dir(), "clisub")
    os.makedirs(wd, exist_ok=True)
    pts = core_points()
    env = dict(os.environ, PYTHONPATH=common.REPO)
    jobs = []
    for i in range(n):
        rec = list(RECS)[i % 3]
        opts = pts[(i * 37) % len(pts)]
        r = RECS[rec]
        data = rec_data(rec)
        argv = ["-", "-r", str(r["rate"]), "-c", str(r["ch"]), "-w", str(r["sw"])] + argv_from(opts)
        p = subprocess.Popen(["/venv/bin/python", "-m", "auditok.cmdline"] + argv, stdin=subprocess.PIPE, stdout=subprocess.PIPE,
                             stderr=subprocess.PIPE, env=env, cwd=wd)
        jobs.append((p, rec, opts, data, argv))
    for p, rec, opts, data, argv in jobs:
        out, err = p.communicate(data, timeout=120)
        rep.add("evaluations")
        res = run_cli(argv_from(opts), rec, "stdin", os.path.join(wd, "x"))
        if p.returncode != 0 or out.decode() != res.stdout:
            rep.violation("cli subprocess argv=%s" % " ".join(argv), "real subprocess prints %r (status %r), in-process run prints %r" % (
                out.decode()[:80], p.returncode, res.stdout[:80]), {"kind": "clisub", "argv": argv})
    shutil.rmtree(wd, ignore_errors=True)


def run(prop, tier):
    lib()
    quick = tier == "quick"
    seed = common.seed()
    rep = common.Report(prop, tier, "bounded-exhaustive enumeration of option combinations x recordings x input kinds, each a "
                        "deterministic controlled execution of the real cmdline.main against split(); exhaustive enumeration "
                        "of the duration formatter over every millisecond of 0..130 s with exact arithmetic")
    formatter_misc(rep)
    misc(rep, tier)
    pts = core_points()
    kinds = ["wav", "wav_L", "raw", "raw_f", "stdin", "raw_L", "stdin:7", "stdin:33,1"]
    tasks = []
    for ri, rec in enumerate(list(RECS)[:3]):
        for ki, kind in enumerate(kinds):
            if quick:
                sub = [p for i, p in enumerate(pts) if (i + ri + ki + seed) % 2 == 0] if kind not in ("wav", "stdin") else pts
            else:
                sub = pts
            for c in range(2):
                tasks.append(("core", (rec, kind, sub[c::2], (not quick) or (ki + ri + c + seed) % 3 == 0)))
    step = 2600 if quick else 1000
    hi = 130001
    for lo in range(0, hi, step):
        tasks.append(("fmt", (lo, min(lo + step, hi))))
    for lo in (3599000, 35999000, 359999000):
        tasks.append(("fmt", (lo, lo + 2000)))
    # the natural end of a run under every interleaving (no Ctrl-C): printing must not depend on who is late
    from . import chk_workers

    chk_workers.lib()
    for p_ in (["AaA", "AAAA"] if quick else ["A", "AaA", "AAAA", "AaAaA"]):
        for argv_ in ([], ["-o", "<WD>ev_{id}.wav"]):
            tasks.append(("sched", (dict(kind="cli", pattern=p_, observers=[], split="s0", argv=argv_), 1, 0, "sync", None, None)))
    # a second run into a directory that still holds the first run's detection files (-o overwrites them)
    tasks.append(("sched", (dict(kind="cli", pattern="AAaA", observers=[], split="s2", argv=["-o", "<WD>ev_{id}.wav"], preexisting=[1, 3]),
                            0, 0, "sync", None, None)))
    # an observer that dies (the region saver cannot write): the others still get everything, under every interleaving
    for p_ in ("AaA", "AAAA"):
        tasks.append(("sched", (dict(kind="cli", pattern=p_, observers=[], split="s2" if p_ == "AAAA" else "s0", argv=["-o", "<WD>no_such_dir/ev_{id}.wav"],
                                     tolerate_crash=["RegionSaverWorker"]), 1, 0, "sync", None, None)))
    for part in common.pmap(_dispatch, tasks):
        rep.merge(part)
    if not quick:
        subprocess_crosscheck(rep, 16)
    rep.cov["rule"] = ("one evaluation = one run of the command line program (compared line by line with split() through the "
                       "documented option mapping) or one formatter call compared with the exact rendering; non-trivial = runs "
                       "that printed detections / formatter calls with h:m:s.i fields")
    rep.cov["bounds"] = {"core_product": len(pts), "recordings": 3, "input_kinds": kinds, "formatter_ms": "0..130000 (+-0.4 ms)"}
    rep.cov["states"] = max(rep.cov.get("states", 0), rep.cov["evaluations"])
    rep.cov["transitions"] = max(rep.cov.get("transitions", 0), rep.cov["evaluations"])
    rep.cov["traces_validated_against_impl"] = rep.cov["evaluations"]
    rep.assumptions += ["only the default (non-preemptive) schedule is run per argv; schedules are C12-C14's business",
                        "-E/-C/-p/-I/-F/-T need pyaudio, a shell or matplotlib output and are not explored"]
    return rep.finish()


def _dispatch(t):
    if t[0] == "sched":
        from . import chk_workers

        part = chk_workers.work(t[1])
        part["cov"].pop("outcomes", None)
        return part
    return work_core(t[1]) if t[0] == "core" else work_formatter(t[1])


def replay(case):
    lib()
    k = case["kind"]
    if k == "sched":
        from . import chk_workers

        return chk_workers.replay(case)
    if k == "cli":
        wd = os.path.join(common.scratch_dir(), "clireplay")
        opts = case["opts"]
        argv = argv_from(opts) + list(case["tail"])
        if case.get("printf") is not None:
            argv += ["--printf", case["printf"]]
        if case.get("tf") is not None:
            argv += ["--time-format", case["tf"]]
        if case.get("quiet"):
            argv.append("-q")
        res = run_cli(argv, case["rec"], case["input"], wd)
        return check_run(res, case["rec"], opts, (case.get("printf") or "{id} {start} {end}").replace("\\n", "\n").replace("\\t", "\t"),
                         case.get("tf") or "%S", case.get("quiet"))
    if k == "fmt":
        f = lib()["util"].make_duration_formatter(case["fmt"])
        got = f(case["x"])
        return None if got in expected_time(case["fmt"], case["x"]) else "renders %r as %r" % (case["x"], got)
    rep = common.Report("C15", "quick", "")
    if k == "fmtbad":
        formatter_misc(rep)
    else:
        misc(rep, "quick")
    return rep.violations[0][1] if rep.violations else None

"""C16 (slicing), C17 (algebra), C18 (save/load round trip, numpy export): ENUM + GRAPH over values."""

import dataclasses
import itertools
import os
import wave
from fractions import Fraction
from pathlib import Path

from . import common

_L = {}


def lib():
    if not _L:
        common.import_auditok()
        import auditok
        from auditok import core
        from auditok.exceptions import AudioParameterError

        _L.update(auditok=auditok, core=core, AR=core.AudioRegion, APE=AudioParameterError)
    return _L


def content(n, sw, ch, salt=0):
    out = bytearray()
    for i in range(n):
        for c in range(ch):
            v = ((5 * i + c + 1 + 31 * salt) % 120) + 1 if sw == 1 else 300 * (i + 1) + 7 * c + 1 + 1000 * salt
            if (i + c + salt) % 3 == 2:
                v = -v
            out += int(v).to_bytes(sw, "little", signed=True)
    return bytes(out)


def samples_of(data, sw, ch):
    b = sw * ch
    return [data[i : i + b] for i in range(0, len(data), b)]


FORMATS5 = [(1, 1), (2, 1), (2, 2), (4, 1), (4, 3)]


def same_params(r, sr, sw, ch):
    return (r.sampling_rate, r.sample_width, r.channels) == (sr, sw, ch) and (r.sr, r.sw, r.ch) == (sr, sw, ch)


# ---------------------------------------------------------------------------
# C16


def c16_lengths(task):
    """len / duration / negative bounds for every length 0..64 (and a few around 1000) at audio rates."""
    sr = task
    AR = lib()["AR"]
    cov = {"evaluations": 0, "distinct_nontrivial": 0, "samples": []}
    viol = []
    sw, ch = 2, 1
    base = content(64, sw, ch)
    for n in list(range(0, 2101)) + [4095, 4097, 44099, 44101, 65537]:
        data = (base * (n // 64 + 1))[: n * sw * ch]
        smp = samples_of(data, sw, ch)
        r = AR(data, sr, sw, ch)
        cov["evaluations"] += 1
        msg = None
        if len(r) != n or r.len != n:
            msg = "len() is %r for %d samples at %d Hz" % (len(r), n, sr)
        elif abs(r.duration - n / sr) > 1e-12:
            msg = "duration %r for %d samples at %d Hz" % (r.duration, n, sr)
        else:
            for a, b in ((-1, None), (-2, None), (None, -1), (-n + 1 if n > 1 else -1, -1), (1, -1), (-3, -1)):
                got = r[a:b]
                if got.data != b"".join(smp[a:b]) or len(got) != len(smp[a:b]):
                    msg = "region[%r:%r] of %d samples at %d Hz holds %d samples, list slicing gives %d" % (a, b, n, sr, len(got), len(smp[a:b]))
                    break
            # long regions: the milliseconds view is the seconds view at t/1000 for every whole millisecond, both signs
            if msg is None and n >= 40000 and sr >= 100:
                top = min(int(1000 * n / sr) + 3, 6000)
                for t in range(-top, top + 1):
                    a = r.ms[t:]
                    b = r.sec[t / 1000 :]
                    if len(a) != len(b):
                        msg = "region.ms[%d:] of %d samples at %d Hz holds %d samples, region.sec[%r:] holds %d" % (t, n, sr, len(a), t / 1000, len(b))
                        break
                    c = r.ms[:t]
                    d = r.sec[: t / 1000]
                    if len(c) != len(d):
                        msg = "region.ms[:%d] of %d samples at %d Hz holds %d samples, region.sec[:%r] holds %d" % (t, n, sr, len(c), t / 1000, len(d))
                        break
            # instants far outside the region through the time views: everything / nothing, whatever n / rate is in binary
            if msg is None:
                for view, big in (("sec", 1e6), ("ms", 10 ** 9)):
                    v = getattr(r, view)
                    for a, b, want in ((-big, None, n), (big, None, 0), (None, big, n), (None, -big, 0), (-big, big, n)):
                        got = v[a:b]
                        if len(got) != want or got.data != (data if want else b""):
                            msg = "region.%s[%r:%r] of %d samples at %d Hz holds %d samples, expected %d" % (view, a, b, n, sr, len(got), want)
                            break
                    if msg:
                        break
        if n:
            cov["distinct_nontrivial"] += 1
        if msg and len(viol) < 5:
            viol.append(("length sr=%d n=%d" % (sr, n), msg, {"kind": "c16len2", "sr": sr}))
    cov["samples"].append({"rate": sr, "lengths": "0..2100, 4095, 4097, 44099, 44101, 65537"})
    return {"cov": cov, "viol": viol}


def c16_two_regions(rep):
    """Views of two different regions used in one expression / kept in variables: each view keeps slicing its own region."""
    AR = lib()["AR"]
    a = AR(content(8, 2, 1), 8, 2, 1)
    b = AR(content(3, 1, 2, salt=1), 4, 1, 2)
    sa, sb = samples_of(a.data, 2, 1), samples_of(b.data, 1, 2)
    cases = [
        ("a.sec[:b.sec.len]", lambda: a.seconds[: b.seconds.len].data, b"".join(sa[: round(0.75 * 8)])),
        ("a.ms[b.ms.len // 3:]", lambda: a.millis[b.millis.len // 3 :].data, b"".join(sa[int(0.25 * 8) :])),
        ("b.sec[:a.sec.len]", lambda: b.seconds[: a.seconds.len].data, b"".join(sb[: round(1.0 * 4)])),
        ("len(a.ms) after b.ms", lambda: (b.millis, len(a.millis))[1], 1000),
        ("a.sec.len after b.sec", lambda: (b.seconds.len, a.seconds.len)[1], 1.0),
    ]
    va, vb = a.seconds, b.seconds
    ma, mb = a.millis, b.millis
    cases += [("kept view of a after touching b", lambda: (vb[0:0.5], va[0.25:0.5])[1].data, b"".join(sa[2:4])),
              ("kept millis view of b after touching a", lambda: (ma[0:500], mb[250:])[1].data, b"".join(sb[1:])),
              ("kept view len", lambda: (vb.len, va.len)[1], 1.0)]
    for name, fn, want in cases:
        rep.add("evaluations")
        try:
            got = fn()
            msg = None if got == want else "%s gives %r, expected %r" % (name, got.hex() if isinstance(got, bytes) else got,
                                                                          want.hex() if isinstance(want, bytes) else want)
        except Exception as exc:
            msg = "%s raised %r" % (name, exc)
        if msg:
            rep.violation("two-regions " + name, msg, {"kind": "c16two"})


def c16_view_lifetime(rep):
    """A view outlives every other reference to its region (v = load(f).ms; region[a:b].sec kept in a variable): after
    any number of garbage collections it still slices that region."""
    import gc

    AR = lib()["AR"]
    data = content(8, 2, 1)
    smp = samples_of(data, 2, 1)

    def fresh():
        return AR(bytes(data), 8, 2, 1)

    keep = fresh()
    makers = [("AudioRegion(...).seconds", lambda: fresh().seconds, lambda v, a, b: v[a:b], keep.seconds),
              ("AudioRegion(...).millis", lambda: fresh().millis, lambda v, a, b: v[None if a is None else int(a * 1000) : None if b is None else int(b * 1000)],
               keep.seconds),
              ("region[2:7].sec", lambda: fresh()[2:7].sec, lambda v, a, b: v[a:b], keep[2:7].seconds),
              ("(r1 + r2).ms", lambda: (fresh() + fresh()).ms, lambda v, a, b: v[None if a is None else int(a * 1000) : None if b is None else int(b * 1000)],
               (keep + keep).seconds)]
    for name, mk, use, ref in makers:
        for collections in (0, 1, 3):
            v = mk()
            for _ in range(collections):
                gc.collect()
            junk = [[i] for i in range(3000)]  # allocations that trigger the cyclic collector on their own
            del junk
            for a, b in ((None, None), (0.25, 0.5), (0, 0.125), (0.5, None), (-0.25, None)):
                rep.add("evaluations")
                rep.add("distinct_nontrivial")
                try:
                    got = use(v, a, b).data
                    want = ref[a:b].data
                    msg = None if got == want else "holds %s, the region's slice is %s" % (got.hex(), want.hex())
                except Exception as exc:
                    msg = "raised %r" % (exc,)
                if msg:
                    rep.violation("view-lifetime %s gc=%d [%r:%r]" % (name, collections, a, b),
                                  "view %s kept after its region went out of scope (%d collections), sliced [%r:%r]: %s" % (name, collections, a, b, msg),
                                  {"kind": "c16life"})
                    break


def c16_cross_format(rep):
    """One process, one sampling rate, formats with the same number of bytes per sample: empty (and non-empty) slices of
    one region never carry another format's parameters.  Bounds far beyond any float (10**400) are ordinary out-of-range ints."""
    AR = lib()["AR"]
    fmts = [(2, 1), (1, 2), (4, 1), (2, 2), (1, 4), (4, 2), (2, 4), (1, 1), (1, 3), (3, 1)]
    fmts = [f for f in fmts if f[0] in (1, 2, 4)]
    regs = [(sw, ch, AR(content(5, sw, ch), 16000, sw, ch)) for sw, ch in fmts]
    for rnd in range(2):
        for sw, ch, r in (regs if rnd == 0 else regs[::-1]):
            for name, fn in (("[0:0]", lambda r=r: r[0:0]), ("[9:]", lambda r=r: r[9:]), ("sec[0:0]", lambda r=r: r.sec[0:0]), ("ms[1:1]", lambda r=r: r.ms[1:1]),
                             ("[1:3]", lambda r=r: r[1:3]), ("sec[1.0:]", lambda r=r: r.sec[1.0:])):
                rep.add("evaluations")
                try:
                    got = fn()
                    ok = same_params(got, 16000, sw, ch) and (got + r).data == got.data + r.data
                    msg = None if ok else "region%s of a (%d-byte, %d-channel) region reports (%r Hz, %r bytes, %r channels)" % (
                        name, sw, ch, got.sampling_rate, got.sample_width, got.channels)
                except Exception as exc:
                    msg = "region%s of a (%d-byte, %d-channel) region: %r" % (name, sw, ch, exc)
                if msg:
                    rep.violation("cross-format %s sw=%d ch=%d round=%d" % (name, sw, ch, rnd), msg, {"kind": "c16cross"})
    r = AR(content(5, 2, 1), 16000, 2, 1)
    smp = samples_of(r.data, 2, 1)
    H = 10 ** 400
    for a, b in ((H, None), (None, H), (-H, None), (None, -H), (H, 3), (-H, H), (2, H), (H, H)):
        for view in ("samples",):  # (instants that no float can hold are outside what the statement says about the time views)
            rep.add("evaluations")
            try:
                got = r[a:b] if view == "samples" else getattr(r, view)[a:b]
                want = b"".join(smp[a:b])
                msg = None if got.data == want else "holds %d samples, list slicing gives %d" % (len(got), len(smp[a:b]))
            except Exception as exc:
                msg = "raised %r" % (exc,)
            if msg:
                rep.violation("huge-int bounds %s [%s:%s]" % (view, "10**400" if a == H else "-10**400" if a == -H else a,
                                                             "10**400" if b == H else "-10**400" if b == -H else b),
                              "%s view sliced with integer bounds of 400 digits: %s" % (view, msg), {"kind": "c16cross"})


def c16_numpy_bounds(rep):
    """Bounds given as numpy scalars: either rejected with TypeError or treated exactly like the equal built-in number."""
    import numpy as np

    AR = lib()["AR"]
    r = AR(big_content(300, 2, 1), 8, 2, 1)
    smp = samples_of(r.data, 2, 1)
    for name, bound in (("uint8 200", np.uint8(200)), ("int8 -3", np.int8(-3)), ("int16 250", np.int16(250)), ("int64 7", np.int64(7)),
                        ("uint16 299", np.uint16(299))):
        for which in ("start", "stop"):
            rep.add("evaluations")
            try:
                got = r[bound:] if which == "start" else r[:bound]
                want = b"".join(smp[int(bound):] if which == "start" else smp[: int(bound)])
                msg = None if got.data == want else "region[%s %s] holds %d samples, the equal built-in bound gives %d" % (
                    which, name, len(got), len(want) // 2)
            except TypeError:
                msg = None
            except Exception as exc:
                msg = "region[%s %s] raised %r (neither TypeError nor a slice)" % (which, name, exc)
            if msg:
                rep.violation("numpy bound %s %s" % (which, name), msg, {"kind": "c16np"})
    for name, bound in (("float32 0.5", np.float32(0.5)), ("float64 0.25", np.float64(0.25)), ("int32 1", np.int32(1))):
        rep.add("evaluations")
        try:
            got = r.seconds[bound:]
            want = b"".join(smp[int(float(bound) * 8):])
            msg = None if got.data == want else "seconds[%s:] holds %d samples, expected %d" % (name, len(got), len(want) // 2)
        except TypeError:
            msg = None
        except Exception as exc:
            msg = "seconds[%s:] raised %r" % (name, exc)
        if msg:
            rep.violation("numpy seconds bound %s" % name, msg, {"kind": "c16np"})


def c16_samples(task):
    sw, ch, nmax = task
    AR = lib()["AR"]
    cov = {"evaluations": 0, "distinct_nontrivial": 0, "samples": []}
    viol = []
    sr = 16
    for n in range(0, nmax + 1):
        data = content(n, sw, ch)
        smp = samples_of(data, sw, ch)
        r = AR(data, sr, sw, ch)
        if len(r) != n or r.len != n:
            viol.append(("len n=%d sw=%d ch=%d" % (n, sw, ch), "len() is %r for %d samples" % (len(r), n),
                         {"kind": "c16len", "n": n, "sw": sw, "ch": ch}))
        if abs(r.duration - n / sr) > 1e-12:
            viol.append(("duration n=%d sw=%d ch=%d" % (n, sw, ch), "duration %r != %d/%d" % (r.duration, n, sr),
                         {"kind": "c16len", "n": n, "sw": sw, "ch": ch}))
        bounds = [None] + list(range(-n - 2, n + 3)) + [10 ** 9, -(10 ** 9)]
        for a, b in itertools.product(bounds, repeat=2):
            cov["evaluations"] += 1
            exp = b"".join(smp[a:b])
            if exp:
                cov["distinct_nontrivial"] += 1
            try:
                got = r[a:b]
                ok = got.data == exp and same_params(got, sr, sw, ch) and len(got) == len(smp[a:b])
                msg = None if ok else "region[%r:%r] holds %s, samples[%r:%r] is %s" % (a, b, got.data.hex(), a, b, exp.hex())
            except Exception as exc:
                msg = "region[%r:%r] raised %r" % (a, b, exc)
            if msg and len(viol) < 10:
                viol.append(("slice n=%d sw=%d ch=%d [%r:%r]" % (n, sw, ch, a, b), msg,
                             {"kind": "c16s", "n": n, "sw": sw, "ch": ch, "a": a, "b": b}))
    cov["samples"].append({"sw": sw, "ch": ch, "lengths": "0..%d" % nmax, "example": "region[-2:10**9]"})
    return {"cov": cov, "viol": viol}


def c16_chained(task):
    """Slices of slices: a region produced by any slicing path (samples, seconds, millis, division) must
    itself slice, and report its lengths, like a freshly built region holding the same samples."""
    sw, ch = task
    AR = lib()["AR"]
    cov = {"evaluations": 0, "distinct_nontrivial": 0, "samples": []}
    viol = []
    sr = 8
    for n in (3, 6):
        data = content(n, sw, ch)
        parent = AR(data, sr, sw, ch)
        children = []
        for a, b in ((1, None), (None, -1), (2, 5), (0, 0)):
            children.append(("[%r:%r]" % (a, b), parent[a:b]))
        children.append(("sec[0.125:0.625]", parent.seconds[0.125:0.625]))
        children.append(("ms[125:]", parent.millis[125:]))
        children += [("/2 piece %d" % i, p) for i, p in enumerate(parent / 2)]
        for name, child in children:
            smp = samples_of(child.data, sw, ch)
            fresh = AR(child.data, sr, sw, ch)
            m = len(smp)
            checks = []
            for a, b in itertools.product([None, 0, 1, -1, m, m + 1], repeat=2):
                checks.append(("[%r:%r]" % (a, b), lambda r, a=a, b=b: r[a:b].data, b"".join(smp[a:b])))
            for a, b in itertools.product([None, 0.0, 0.125, 0.25, -0.125], repeat=2):
                checks.append(("sec[%r:%r]" % (a, b), lambda r, a=a, b=b: r.seconds[a:b].data, None))
            for a, b in itertools.product([None, 0, 125, 250, -125], repeat=2):
                checks.append(("ms[%r:%r]" % (a, b), lambda r, a=a, b=b: r.millis[a:b].data, None))
            checks.append(("len", lambda r: len(r), m))
            checks.append(("duration", lambda r: r.duration, m / sr))
            checks.append(("len(ms)", lambda r: len(r.millis), round(m / sr * 1000)))
            checks.append(("sec.len", lambda r: r.seconds.len, m / sr))
            checks.append(("ms.len", lambda r: r.ms.len, round(m / sr * 1000)))
            for cname, fn, want in checks:
                cov["evaluations"] += 1
                try:
                    got = fn(child)
                    ref = fn(fresh) if want is None else want
                    msg = None if got == ref else "child %s of a %d-sample region: %s gives %r, a fresh region with the same samples gives %r" % (
                        name, n, cname, got.hex() if isinstance(got, bytes) else got, ref.hex() if isinstance(ref, bytes) else ref)
                except Exception as exc:
                    msg = "child %s: %s raised %r" % (name, cname, exc)
                if m:
                    cov["distinct_nontrivial"] += 1
                if msg and len(viol) < 6:
                    viol.append(("chained sw=%d ch=%d n=%d child=%s op=%s" % (sw, ch, n, name, cname), msg,
                                 {"kind": "c16c", "sw": sw, "ch": ch}))
    cov["samples"].append({"chained_slicing": "children via [], seconds, millis, /2; then [], seconds, millis, len, duration", "sw": sw, "ch": ch})
    return {"cov": cov, "viol": viol}


def big_content(n, sw, ch):
    top = 2 ** (8 * sw - 1) - 1
    return b"".join(int((i * 11 + c * 5 + 3) % top).to_bytes(sw, "little", signed=True) for i in range(n) for c in range(ch))


def c16_large(task):
    """Large regions: sample, seconds and millis slicing around 4096 / 65536 and the ends."""
    sw, ch = task
    AR = lib()["AR"]
    cov = {"evaluations": 0, "distinct_nontrivial": 0, "large_rows_not_exhaustive": 0, "samples": []}
    viol = []
    n, sr = 70001, 8192
    bps = sw * ch
    data = big_content(n, sw, ch)
    r = AR(data, sr, sw, ch)
    bounds = [None, 0, 1, 4095, 4096, 4097, 65535, 65536, 65537, n - 1, n, n + 1, -1, -4096, -65537, -n, -n - 1]
    for a, b in itertools.product(bounds, repeat=2):
        cov["evaluations"] += 1
        cov["large_rows_not_exhaustive"] += 1
        rng = range(n)[a:b]
        exp = data[rng.start * bps : rng.stop * bps] if len(rng) else b""
        try:
            got = r[a:b]
            msg = None if got.data == exp and len(got) == len(rng) and same_params(got, sr, sw, ch) else \
                "region[%r:%r] of %d samples holds %d samples, list slicing gives %d (or content differs)" % (a, b, n, len(got), len(rng))
            if msg is None and a is not None and b is not None and a >= 0 and b >= 0:
                g2 = r.seconds[a / sr : b / sr]
                if g2.data != exp:
                    msg = "seconds[%r/%d:%r/%d] holds %d samples, expected %d" % (a, sr, b, sr, len(g2), len(rng))
        except Exception as exc:
            msg = "region[%r:%r] raised %r" % (a, b, exc)
        if exp:
            cov["distinct_nontrivial"] += 1
        if msg and len(viol) < 5:
            viol.append(("slice-large sw=%d ch=%d [%r:%r]" % (sw, ch, a, b), msg, {"kind": "c16L", "sw": sw, "ch": ch}))
    for t0, t1 in ((0, 1000), (500, 8544), (1000, None), (-1000, None), (None, -500), (8000, 8001)):
        cov["evaluations"] += 1
        try:
            got = r.millis[t0:t1]
            ref = r.seconds[(None if t0 is None else t0 / 1000) : (None if t1 is None else t1 / 1000)]
            if got.data != ref.data:
                viol.append(("millis-large sw=%d ch=%d [%r:%r]" % (sw, ch, t0, t1), "millis[%r:%r] differs from seconds view at t/1000" % (t0, t1),
                             {"kind": "c16L", "sw": sw, "ch": ch}))
        except Exception as exc:
            viol.append(("millis-large sw=%d ch=%d [%r:%r]" % (sw, ch, t0, t1), "raised %r" % (exc,), {"kind": "c16L", "sw": sw, "ch": ch}))
    cov["samples"].append({"large_region_samples": n, "sw": sw, "ch": ch})
    return {"cov": cov, "viol": viol}


def c16_huge(rep):
    """A region above 16 MiB: tails taken with negative bounds through all three views."""
    AR = lib()["AR"]
    sr, sw, ch = 16000, 2, 2
    n = (1 << 22) + 1003  # samples; > 16 MiB of data
    unit = big_content(4096, sw, ch)
    data = unit * (n // 4096) + unit[: (n % 4096) * sw * ch]
    r = AR(data, sr, sw, ch)
    bps = sw * ch
    for a, b in ((-5, None), (-3, n), (-7, 10 ** 12), (None, -n + 2), (-n - 5, 3), (n - 2, None), (-1, None)):
        rep.add("evaluations")
        rng = range(n)[a:b]
        exp = data[rng.start * bps : rng.stop * bps] if len(rng) else b""
        got = r[a:b]
        if got.data != exp:
            rep.violation("slice-huge [%r:%r]" % (a, b), "region[%r:%r] of %d samples holds %d samples, expected %d" % (a, b, n, len(got), len(rng)),
                          {"kind": "c16H"})
    for name, got, want in (("seconds[-0.25:]", r.seconds[-0.25:], data[-4000 * bps :]), ("millis[-250:]", r.millis[-250:], data[-4000 * bps :]),
                            ("seconds[:0.001]", r.seconds[:0.001], data[: 16 * bps])):
        rep.add("evaluations")
        if got.data != want:
            rep.violation("view-huge %s" % name, "%s of a %d-sample region holds %d samples, expected %d" % (name, n, len(got), len(want) // bps),
                          {"kind": "c16H"})


def c17_large(rep):
    """Large operands: long repetition, division into many pieces, sums and joins of many regions."""
    L = lib()
    AR, core = L["AR"], L["core"]
    for sw, ch in ((2, 2), (1, 3), (4, 1)):
        n = 70001
        data = big_content(n, sw, ch)
        r = AR(data, 8000, sw, ch)
        keep = bytes(data)
        small = AR(big_content(5, sw, ch), 8000, sw, ch)
        cases = []
        for k in (2, 7, 4096, 4097, 65536, 70000, 70001, 70002):
            rep.add("evaluations")
            pieces = r / k
            lens = [len(p) for p in pieces]
            ok = len(pieces) == min(k, n) and b"".join(p.data for p in pieces) == data and max(lens) - min(lens) <= 1 and min(lens) >= 1
            if not ok:
                rep.violation("div-large sw=%d ch=%d /%d" % (sw, ch, k), "r/%d of %d samples: %d pieces, lengths %d..%d" % (
                    k, n, len(pieces), min(lens), max(lens)), {"kind": "c17L"})
        for k in (1000, 4097):
            rep.add("evaluations")
            if (small * k).data != small.data * k:
                rep.violation("mul-large sw=%d ch=%d *%d" % (sw, ch, k), "r*%d is not %d repetitions" % (k, k), {"kind": "c17L"})
        parts = r / 300
        rep.add("evaluations")
        if sum(parts).data != data or (parts[0] + parts[1] + parts[2]).data != data[: sum(len(p) for p in parts[:3]) * sw * ch]:
            rep.violation("sum-large sw=%d ch=%d" % (sw, ch), "sum of 300 pieces differs from the original", {"kind": "c17L"})
        sil = core.make_silence(3 / 8000, 8000, sw, ch)
        rep.add("evaluations")
        if sil.join(parts).data != sil.data.join(p.data for p in parts):
            rep.violation("join-large sw=%d ch=%d" % (sw, ch), "join of 300 pieces differs from byte-level interleaving", {"kind": "c17L"})
        for cnt in (1, 2, 31, 32, 33, 63, 64, 65, 127, 128, 129, 256, 1024):
            rep.add("evaluations")
            some = (small / 5) * (cnt // 5 + 1)
            some = some[:cnt]
            for how, got in (("list", sil.join(some)), ("generator", sil.join(x for x in some)), ("sum", sum(some))):
                want = sil.data.join(p.data for p in some) if how != "sum" else b"".join(p.data for p in some)
                if got.data != want:
                    rep.violation("join-count sw=%d ch=%d n=%d %s" % (sw, ch, cnt, how),
                                  "%s of %d regions holds %d bytes, byte-level result has %d" % (how, cnt, len(got.data), len(want)),
                                  {"kind": "c17L"})
        # equality: bytes and audio parameters only (a start time does not take part), also for large regions
        for dat in (small.data, data):
            a = AR(dat, 8000, sw, ch)
            b = AR(bytes(dat), 8000, sw, ch, 1.5)
            c = AR(bytes(dat), 8000, sw, ch, 0.0)
            rep.add("evaluations")
            if not (a == b and b == a and b == c and not (a != b)):
                rep.violation("eq-start sw=%d ch=%d n=%d" % (sw, ch, len(dat)), "regions with equal bytes and parameters but different start compare unequal",
                              {"kind": "c17L"})
            d2 = bytearray(dat)
            d2[-1] ^= 1
            if a == AR(bytes(d2), 8000, sw, ch) or a == AR(dat, 8001, sw, ch):
                rep.violation("eq-diff sw=%d ch=%d n=%d" % (sw, ch, len(dat)), "regions differing in the last byte or in rate compare equal",
                              {"kind": "c17L"})
        for d in (1.0, 8.5, 0.51200625):
            rep.add("evaluations")
            s_ = core.make_silence(d, 8000, sw, ch)
            if s_.data != b"\0" * (round(d * 8000) * sw * ch):
                rep.violation("silence-large sw=%d ch=%d d=%r" % (sw, ch, d), "make_silence(%r) holds %d bytes" % (d, len(s_.data)), {"kind": "c17L"})
        if (sw, ch) in ((2, 1), (4, 3), (2, 2)):
            # silences of more than 1 MiB / 4 MiB whose sample count is still small
            for d, sr_ in ((40.0, 16000), (1.5, 48000), (6.0, 48000), (23.5, 44100)):
                rep.add("evaluations")
                s_ = core.make_silence(d, sr_, sw, ch)
                n_ = round(d * sr_) * sw * ch
                if len(s_.data) != n_ or s_.data.count(0) != n_ or len(s_) != round(d * sr_):
                    rep.violation("silence-large sw=%d ch=%d d=%r sr=%d" % (sw, ch, d, sr_),
                                  "make_silence(%r, %d, %d, %d) holds %d bytes, round(d*rate) samples are %d bytes" % (d, sr_, sw, ch, len(s_.data), n_),
                                  {"kind": "c17L"})
        if r.data != keep:
            rep.violation("mutated-large sw=%d ch=%d" % (sw, ch), "operand altered", {"kind": "c17L"})


def c17_div_table(rep):
    """region / k for every length 1..2100 at audio rates (k = 2, 3 and the length itself up to 64): min(k, len) contiguous
    pieces, lengths within one sample of each other, concatenating to the original."""
    AR = lib()["AR"]
    base = content(64, 2, 1)
    for sr in (100, 8000, 16000, 44100, 48000):
        for n in range(1, 2101):
            data = (base * (n // 64 + 1))[: n * 2]
            r = AR(data, sr, 2, 1)
            for k in (2, 3) + ((n, n + 1) if n <= 64 or n in (1001, 2002) else ()):
                rep.add("evaluations")
                rep.add("distinct_nontrivial")
                try:
                    pieces = r / k
                    lens = [len(p) for p in pieces]
                    ok = (len(pieces) == min(k, n) and b"".join(p.data for p in pieces) == data and max(lens) - min(lens) <= 1 and min(lens) >= 1
                          and sum(lens) == n)
                    msg = None if ok else "%d pieces of lengths %d..%d totalling %d samples" % (len(pieces), min(lens), max(lens), sum(lens))
                except Exception as exc:
                    msg = "raised %r" % (exc,)
                if msg:
                    rep.violation("div-table sr=%d n=%d k=%d" % (sr, n, k), "region of %d samples at %d Hz divided by %d: %s" % (n, sr, k, msg),
                                  {"kind": "c17div"})
                    return


def c17_split_and_join(rep):
    """split_and_join_with_silence() is silence.join(split regions): 0, 1, 2, 3 detections, several silence durations."""
    L = lib()
    AR, core = L["AR"], L["core"]
    for nch in (1, 2, 3):
      loud, quiet = (20000).to_bytes(2, "little", signed=True) * nch, bytes(2 * nch)
      for pattern in ("aaaa", "aAAa", "AAAA", "AaaA", "aAaaAa", "AaaAaaA", "AAaaAAaaAA"):
        data = b"".join((loud if c == "A" else quiet) * 2 for c in pattern)
        for d in (0, 0.1, 0.25, 0.05, 1.0):
            rep.add("evaluations")
            kw = dict(min_dur=0.2, max_dur=1.0, max_silence=0, analysis_window=0.2, energy_threshold=50, sr=10, sw=2, ch=nch)
            regs = list(core.split(data, **kw))
            want = None if not regs else (b"\0" * (2 * nch * round(d * 10))).join(r.data for r in regs)
            try:
                got = core.split_and_join_with_silence(data, d, **kw)
                got = None if got is None else got.data
                msg = None if got == want else "holds %r bytes, the %d detections joined by round(%r*10) zero samples are %r bytes" % (
                    None if got is None else len(got), len(regs), d, None if want is None else len(want))
            except Exception as exc:
                msg = "raised %r" % (exc,)
            rep.add("distinct_nontrivial", int(bool(regs)))
            if msg:
                rep.violation("split-and-join pattern=%s d=%r" % (pattern, d), "split_and_join_with_silence on %s, silence %r s: %s" % (pattern, d, msg),
                              {"kind": "c17saj"})


def expected_view_slices(smp, sr, start_s, stop_s):
    """All sample slices the statement allows for seconds bounds (exact rationals)."""
    n = len(smp)

    def starts(x):
        if x is None:
            return [0]
        q = Fraction(x) * sr
        t = int(q)  # truncation toward zero
        return [t]

    def stops(x):
        if x is None:
            return [None]
        q = Fraction(x) * sr
        fl = q.numerator // q.denominator
        if q == fl:
            return [fl]
        if q - fl == Fraction(1, 2):
            return [fl, fl + 1]  # a tie: 'nearest' is either
        return [fl if q - fl < Fraction(1, 2) else fl + 1]

    out = []
    for a in starts(start_s):
        for b in stops(stop_s):
            out.append(b"".join(smp[a:b]))
    return out


def c16_views(task):
    sr, tier = task
    AR = lib()["AR"]
    cov = {"evaluations": 0, "distinct_nontrivial": 0, "samples": [], "ambiguous_skipped": 0}
    viol = []
    sw, ch = 2, 2
    dyadic = sr in (4, 8, 16)
    for n in (0, 1, 3, 5):
        data = content(n, sw, ch)
        smp = samples_of(data, sw, ch)
        r = AR(data, sr, sw, ch)
        if dyadic:
            grid = [None] + [j / (4 * sr) for j in range(-4 * n - 6, 4 * n + 7)]
        else:
            step = Fraction(1, sr)
            grid = [None]
            for j in range(-n - 1, n + 2):
                for off in (Fraction(0), Fraction(1, 4), Fraction(49, 100), Fraction(51, 100), Fraction(3, 4)):
                    grid.append(float((j + off) * step))
        for a, b in itertools.product(grid, repeat=2):
            cov["evaluations"] += 1
            if not dyadic:
                # R2: a bound whose exact product with the rate is within 1e-9 of a decision point is ambiguous
                amb = False
                for x, pts in ((a, (0,)), (b, (Fraction(1, 2),))):
                    if x is None:
                        continue
                    q = Fraction(x) * sr
                    fr = q - (q.numerator // q.denominator)
                    for p in pts:
                        if fr != p and abs(fr - p) < Fraction(1, 10 ** 9):
                            amb = True
                    if fr != 0 and (1 - fr) < Fraction(1, 10 ** 9):
                        amb = True
                if amb:
                    cov["ambiguous_skipped"] += 1
                    continue
            exps = expected_view_slices(smp, sr, a, b)
            if any(exps):
                cov["distinct_nontrivial"] += 1
            try:
                got = r.seconds[a:b]
                ok = got.data in exps and same_params(got, sr, sw, ch)
                msg = None if ok else "seconds[%r:%r] holds %s, allowed %s" % (a, b, got.data.hex(), [e.hex() for e in exps])
                if ok and (r.sec[a:b] != got or r.s[a:b] != got):
                    msg = "sec / s aliases differ from seconds for [%r:%r]" % (a, b)
            except Exception as exc:
                msg = "seconds[%r:%r] raised %r" % (a, b, exc)
            if msg and len(viol) < 10:
                viol.append(("seconds sr=%d n=%d [%r:%r]" % (sr, n, a, b), msg,
                             {"kind": "c16v", "sr": sr, "n": n, "a": a, "b": b}))
        # millis view == seconds view at t/1000
        lim = int(1000 * n / sr) + 2
        ts = [None] + list(range(-lim, lim + 1)) if lim <= 40 else [None] + list(range(-lim, lim + 1, max(1, lim // 20)))
        for a, b in itertools.product(ts, repeat=2):
            cov["evaluations"] += 1
            try:
                got = r.millis[a:b]
                ref = r.seconds[(None if a is None else a / 1000) : (None if b is None else b / 1000)]
                msg = None if (got == ref and got.data == ref.data and r.ms[a:b] == got) else \
                    "millis[%r:%r] holds %s, seconds view at t/1000 holds %s" % (a, b, got.data.hex(), ref.data.hex())
            except Exception as exc:
                msg = "millis[%r:%r] raised %r" % (a, b, exc)
            if msg and len(viol) < 10:
                viol.append(("millis sr=%d n=%d [%r:%r]" % (sr, n, a, b), msg,
                             {"kind": "c16m", "sr": sr, "n": n, "a": a, "b": b}))
    cov["samples"].append({"rate": sr, "view": "seconds+millis", "example": "seconds[%r:%r]" % (grid[2], grid[-2])})
    return {"cov": cov, "viol": viol}


def c16_type_errors(rep):
    AR = lib()["AR"]
    r = AR(content(4, 2, 1), 8, 2, 1)
    cases = [
        ("samples step", lambda: r[0:2:1]), ("samples non-slice", lambda: r[1]), ("samples float", lambda: r[0.5:2]),
        ("samples float stop", lambda: r[0:2.0]), ("samples str", lambda: r["a":2]),
        ("seconds step", lambda: r.seconds[0:1:1]), ("seconds non-slice", lambda: r.seconds[0.1]),
        ("seconds str", lambda: r.seconds["0":1]), ("millis float", lambda: r.millis[0.5:100]),
        ("millis float stop", lambda: r.millis[0:100.0]), ("millis step", lambda: r.millis[0:100:2]),
        ("millis non-slice", lambda: r.millis[3]), ("millis str", lambda: r.millis[0:"9"]),
        # wrongly typed bounds / steps that happen to be falsy
        ("samples float zero start", lambda: r[0.0:3]), ("samples negative float zero", lambda: r[-0.0:3]),
        ("samples empty str start", lambda: r["":3]), ("samples empty list start", lambda: r[[]:3]),
        ("samples empty tuple start", lambda: r[():3]), ("samples zero step", lambda: r[::0]),
        ("samples float zero step", lambda: r[0:2:0.0]), ("samples empty str step", lambda: r[0:2:""]),
        ("samples float zero stop", lambda: r[0:0.0]), ("seconds empty str start", lambda: r.seconds["":1]),
        ("seconds zero step", lambda: r.seconds[0:1:0]), ("seconds empty list stop", lambda: r.seconds[0:[]]),
        ("millis float zero start", lambda: r.millis[0.0:300]), ("millis float zero stop", lambda: r.millis[0:0.0]),
        ("millis zero step", lambda: r.millis[0:300:0]), ("millis empty str start", lambda: r.millis["":300]),
    ]
    e = AR(b"", 8, 2, 1)
    cases += [("empty region step", lambda: e[::2]), ("empty region float", lambda: e[1.5:]), ("empty region str", lambda: e["a":]),
              ("empty region non-slice", lambda: e[3]), ("empty region seconds str", lambda: e.seconds["a":]),
              ("empty region millis float", lambda: e.millis[0.5:])]
    # the same wrongly typed request right after its correctly typed twin (results must not be remembered by value)
    for a, b in ((2, 9), (0, None), (-3, None), (1, 3)):
        r[a:b]
        r.millis[a:b]
        cases.append(("samples float after int twin [%r:%r]" % (a, b), lambda a=a, b=b: r[float(a):b]))
        cases.append(("millis float after int twin [%r:%r]" % (a, b), lambda a=a, b=b: r.millis[float(a):b]))
    for name, fn in cases:
        rep.add("evaluations")
        try:
            fn()
        except TypeError:
            continue
        except Exception as exc:
            rep.violation("typeerror " + name, "%s raised %r, not TypeError" % (name, exc), {"kind": "c16t", "name": name})
            continue
        rep.violation("typeerror " + name, "%s did not raise TypeError" % name, {"kind": "c16t", "name": name})


# ---------------------------------------------------------------------------
# C17


def pool():
    """Regions of 0..3 samples; formats differing pairwise in exactly one parameter."""
    AR = lib()["AR"]
    fmts = [(8, 2, 1), (16, 2, 1), (8, 1, 1), (8, 2, 2)]
    out = []
    for fi, (sr, sw, ch) in enumerate(fmts):
        for n in range(0, 4):
            for salt in ((0, 1) if fi == 0 and n in (1, 2) else (0,)):
                out.append(AR(content(n, sw, ch, salt), sr, sw, ch))
    return out


def snap(r):
    return (r.data, r.sampling_rate, r.sample_width, r.channels)


def c17_work(task):
    depth, part, nparts = task
    L = lib()
    AR, APE = L["AR"], L["APE"]
    P = pool()
    cov = {"evaluations": 0, "distinct_nontrivial": 0, "states": 0, "transitions": 0, "samples": [],
           "traces_validated_against_impl": 0}
    viol = []

    def complain(key, msg, case):
        if len(viol) < 10:
            viol.append((key, msg, case))

    # GRAPH over region values: a state is (bytes, params) reached by an expression; model = tuple of samples
    seen = {}
    frontier = []
    for i, r in enumerate(P):
        if snap(r) not in seen:
            seen[snap(r)] = ("P%d" % i,)
            frontier.append((r, ("P%d" % i,)))
    for level in range(depth):
        nxt = []
        for idx, (r, expr) in enumerate(frontier):
            if level == 0 and idx % nparts != part:
                continue
            before = snap(r)
            bps = r.sample_width * r.channels
            events = []
            for j, o in enumerate(P):
                events.append(("add", j))
            for n in (1, 2, 3):
                events.append(("mul", n))
            for n in range(1, len(r) + 3):
                events.append(("div", n))
            events.append(("join", None))
            for a, b in ((1, None), (None, -1), (1, 2)):
                events.append(("slice", (a, b)))
            for ev in events:
                cov["evaluations"] += 1
                cov["transitions"] += 1
                results = []
                try:
                    if ev[0] == "add":
                        o = P[ev[1]]
                        ob = snap(o)
                        mismatch = (o.sr, o.sw, o.ch) != (r.sr, r.sw, r.ch)
                        try:
                            res = r + o
                            if mismatch:
                                complain("add %s + P%d" % (expr, ev[1]), "mismatched parameters were concatenated",
                                         {"kind": "c17", "expr": list(expr), "ev": list(ev)})
                            elif res.data != r.data + o.data or snap(res)[1:] != before[1:]:
                                complain("add %s + P%d" % (expr, ev[1]), "a+b is not the byte concatenation",
                                         {"kind": "c17", "expr": list(expr), "ev": list(ev)})
                            else:
                                results.append(res)
                                s = sum([r, o, r]) if not mismatch else None
                                if s is not None and s.data != r.data + o.data + r.data:
                                    complain("sum %s P%d" % (expr, ev[1]), "sum() is not the byte concatenation",
                                             {"kind": "c17", "expr": list(expr), "ev": list(ev)})
                        except APE:
                            if not mismatch:
                                complain("add %s + P%d" % (expr, ev[1]), "matching parameters raised AudioParameterError",
                                         {"kind": "c17", "expr": list(expr), "ev": list(ev)})
                        if snap(o) != ob:
                            complain("add %s + P%d" % (expr, ev[1]), "right operand was altered",
                                     {"kind": "c17", "expr": list(expr), "ev": list(ev)})
                    elif ev[0] == "mul":
                        res = r * ev[1]
                        res2 = ev[1] * r
                        if res.data != r.data * ev[1] or res2.data != res.data or snap(res)[1:] != before[1:]:
                            complain("mul %s * %d" % (expr, ev[1]), "r*n is not n byte-level repetitions",
                                     {"kind": "c17", "expr": list(expr), "ev": list(ev)})
                        else:
                            results.append(res)
                    elif ev[0] == "div":
                        n = ev[1]
                        if len(r) == 0:
                            continue
                        pieces = r / n
                        ok = len(pieces) == min(n, len(r))
                        ok = ok and b"".join(p.data for p in pieces) == r.data
                        lens = [len(p) for p in pieces]
                        ok = ok and lens and max(lens) - min(lens) <= 1 and min(lens) >= 1
                        ok = ok and all(snap(p)[1:] == before[1:] for p in pieces)
                        ok = ok and (sum(pieces) == r)
                        if not ok:
                            complain("div %s / %d" % (expr, n), "r/%d gives pieces of %r samples for %d samples" % (
                                n, lens, len(r)), {"kind": "c17", "expr": list(expr), "ev": list(ev)})
                        else:
                            results.extend(pieces[:2])
                    elif ev[0] == "join":
                        others = [o for o in P if (o.sr, o.sw, o.ch) == (r.sr, r.sw, r.ch)][:3]
                        res = r.join(others)
                        if res.data != r.data.join(o.data for o in others) or snap(res)[1:] != before[1:]:
                            complain("join %s" % (expr,), "join is not byte-level interleaving",
                                     {"kind": "c17", "expr": list(expr), "ev": list(ev)})
                        else:
                            results.append(res)
                        bad = [o for o in P if (o.sr, o.sw, o.ch) != (r.sr, r.sw, r.ch)][:1]
                        if bad:
                            try:
                                r.join(others[:1] + bad)
                                complain("join-mismatch %s" % (expr,), "join accepted mismatched parameters",
                                         {"kind": "c17", "expr": list(expr), "ev": list(ev)})
                            except APE:
                                pass
                    elif ev[0] == "slice":
                        a, b = ev[1]
                        res = r[a:b]
                        smp = samples_of(r.data, r.sw, r.ch)
                        if res.data != b"".join(smp[a:b]):
                            complain("slice %s" % (expr,), "slice differs", {"kind": "c17", "expr": list(expr), "ev": list(ev)})
                        else:
                            results.append(res)
                except Exception as exc:
                    complain("%s %s %r" % (ev[0], expr, ev[1]), "%s raised %r" % (ev[0], exc),
                             {"kind": "c17", "expr": list(expr), "ev": list(ev)})
                if snap(r) != before:
                    complain("mutated %s by %s" % (expr, ev[0]), "operand was altered by %s" % ev[0],
                             {"kind": "c17", "expr": list(expr), "ev": list(ev)})
                for res in results:
                    k = snap(res)
                    if res.data:
                        cov["distinct_nontrivial"] += 1
                    if k not in seen:
                        seen[k] = expr + (ev,)
                        nxt.append((res, expr + (ev,)))
        frontier = nxt
    cov["states"] = len(seen)
    cov["traces_validated_against_impl"] = cov["evaluations"]
    deepest = max(seen.values(), key=len)
    cov["samples"].append({"expression_reaching_a_new_value": [list(x) if isinstance(x, tuple) else x for x in deepest]})
    return {"cov": cov, "viol": viol}


def c17_misc(rep):
    L = lib()
    AR, APE, core = L["AR"], L["APE"], L["core"]
    P = pool()
    # equality iff bytes and parameters equal, all pairs (and against fresh copies)
    for a, b in itertools.product(P, repeat=2):
        rep.add("evaluations")
        want = snap(a) == snap(b)
        if (a == b) != want or (a != b) == want:
            rep.violation("eq %r %r" % (snap(a), snap(b)), "== gives %r for %r vs %r" % (a == b, snap(a), snap(b)),
                          {"kind": "c17eq"})
    class Tagged(AR):
        """What a user adds to carry a label along: same bytes, same parameters - still equal to the plain region."""

    for a in P:
        rep.add("evaluations")
        t = Tagged(bytes(a.data), a.sr, a.sw, a.ch)
        try:
            ok = (t == a) and (a == t) and not (t != a) and (t * 1 == t) and (t == t * 1)
        except Exception as exc:
            ok = False
        if not ok:
            rep.violation("eq subclass %r" % (snap(a),), "an AudioRegion subclass instance with the same bytes and parameters is not equal to the region",
                          {"kind": "c17eq"})
    # many channels: every mismatch is still refused (16 / 17 / 32 / 33 channels against 1 / 16)
    many = [AR(bytes(sw_ * ch_ * 2), 8, sw_, ch_) for sw_, ch_ in ((1, 17), (2, 1), (1, 32), (2, 16), (2, 33), (4, 1), (1, 16), (1, 33), (2, 17))]
    for a, b in itertools.product(many, repeat=2):
        rep.add("evaluations")
        if (a.sw, a.ch) == (b.sw, b.ch):
            continue
        for name, fn in (("+", lambda: a + b), ("join", lambda: a.join([b, b])), ("sum", lambda: sum([a, b]))):
            try:
                fn()
                rep.violation("mismatch many-channels %s (%d,%d) vs (%d,%d)" % (name, a.sw, a.ch, b.sw, b.ch),
                              "%s of regions with (width %d, %d channels) and (width %d, %d channels) produced data" % (name, a.sw, a.ch, b.sw, b.ch),
                              {"kind": "c17eq"})
            except APE:
                pass
            except Exception as exc:
                rep.violation("mismatch many-channels %s (%d,%d) vs (%d,%d)" % (name, a.sw, a.ch, b.sw, b.ch), "raised %r" % (exc,), {"kind": "c17eq"})
    for a in P:
        c = AR(bytes(a.data), a.sr, a.sw, a.ch)
        if not (a == c):
            rep.violation("eq copy %r" % (snap(a),), "a region differs from its copy", {"kind": "c17eq"})
        if a == snap(a) or a == a.data:
            rep.violation("eq foreign %r" % (snap(a),), "a region equals a non-region", {"kind": "c17eq"})
    # immutability
    r = P[5]
    for attr, val in (("data", b"\0\0"), ("sampling_rate", 4), ("sample_width", 1), ("channels", 2), ("start", 1.0)):
        rep.add("evaluations")
        try:
            setattr(r, attr, val)
            rep.violation("immutable " + attr, "assignment to %s succeeded" % attr, {"kind": "c17imm", "attr": attr})
        except dataclasses.FrozenInstanceError:
            pass
        except Exception as exc:
            rep.violation("immutable " + attr, "assignment to %s raised %r" % (attr, exc), {"kind": "c17imm", "attr": attr})
    # ... and nothing can be taken away either: deleting an attribute is refused and leaves the region as it was
    for attr in ("data", "sampling_rate", "sample_width", "channels", "start", "duration"):
        rep.add("evaluations")
        r = AR(bytes(P[5].data), P[5].sr, P[5].sw, P[5].ch, 0.5)
        before = (r.data, r.sr, r.sw, r.ch, r.start, r.duration, len(r))
        try:
            delattr(r, attr)
            msg = "del region.%s succeeded" % attr
        except (dataclasses.FrozenInstanceError, AttributeError, TypeError):
            msg = None
        except Exception as exc:
            msg = "del region.%s raised %r" % (attr, exc)
        if msg is None:
            try:
                after = (r.data, r.sr, r.sw, r.ch, r.start, r.duration, len(r))
                msg = None if after == before else "after the refused del region.%s the region changed" % attr
            except Exception as exc:
                msg = "after the refused del region.%s the region is unusable: %r" % (attr, exc)
        if msg:
            rep.violation("immutable del " + attr, msg, {"kind": "c17imm", "attr": attr})
    # non-whole data rejected at construction: 0, 1, 2 whole samples plus 1..sw*ch-1 bytes, with and without a start time
    for sw, ch in FORMATS5:
        for whole in (0, 1, 2):
            for extra in range(1, sw * ch):
                for start in ("omitted", None, 0, 0.0, 1.5):
                    rep.add("evaluations")
                    args = () if start == "omitted" else (start,)
                    key = "nonwhole sw=%d ch=%d whole=%d extra=%d start=%r" % (sw, ch, whole, extra, start)
                    try:
                        AR(content(whole, sw, ch) + b"\1" * extra, 8, sw, ch, *args)
                        rep.violation(key, "data of %d bytes (%d-byte samples) accepted at construction (start %s)" % (
                            whole * sw * ch + extra, sw * ch, start), {"kind": "c17whole", "sw": sw, "ch": ch, "extra": extra})
                    except APE:
                        pass
                    except Exception as exc:
                        rep.violation(key, "raised %r" % (exc,), {"kind": "c17whole", "sw": sw, "ch": ch, "extra": extra})
    # use, fail, use again: a combination that was refused once is refused every time, and a refusal leaves the operands usable
    a = AR(content(3, 2, 1), 8, 2, 1)
    good = AR(content(2, 2, 1, salt=1), 8, 2, 1)
    for bad in (AR(content(3, 2, 1), 16, 2, 1), AR(content(4, 1, 1), 8, 1, 1), AR(content(2, 2, 2), 8, 2, 2)):
        ops = [("a + bad", lambda: a + bad), ("bad + a", lambda: bad + a), ("sum([a, bad])", lambda: sum([a, bad])),
               ("a.join([bad, bad])", lambda: a.join([bad, bad])), ("a.join([good, bad])", lambda: a.join([good, bad])),
               ("sum([a, good, bad])", lambda: sum([a, good, bad]))]
        for name, fn in ops:
            for attempt in (1, 2, 3):
                rep.add("evaluations")
                try:
                    got = fn()
                    msg = "attempt %d of %s produced %d bytes instead of the audio-parameter error" % (attempt, name, len(got.data))
                except APE:
                    msg = None
                except Exception as exc:
                    msg = "attempt %d of %s raised %r" % (attempt, name, exc)
                if msg is None and attempt == 2:
                    try:
                        ok = (a + good).data == a.data + good.data and good.join([a, a]).data == a.data + good.data + a.data
                        msg = None if ok else "after the refusal, compatible operands give wrong bytes"
                    except Exception as exc:
                        msg = "after the refusal, compatible operands raise %r" % (exc,)
                if msg:
                    rep.violation("retry %s vs (%d,%d,%d) #%d" % (name, bad.sr, bad.sw, bad.ch, attempt), msg, {"kind": "c17retry"})
                    break
    # make_silence(d) = round(d*rate) zero samples, on / between sample instants
    for sr, sw, ch in itertools.product((8, 10, 16000), (1, 2, 4), (1, 2, 3)):
        durs = [0, 1 / sr, 2 / sr, 2.5 / sr, 3.5 / sr, 0.3, 0.25, 1.0, 0.0004, 7 / sr + 0.4 / sr, 7 / sr + 0.6 / sr,
                0.75 / sr, 0.6 / sr, 0.4 / sr, 0.26 / sr, 1.4 / sr, 1.6 / sr]  # below / around one and two samples
        for d in durs:
            rep.add("evaluations")
            q = Fraction(d) * sr
            fr = q - (q.numerator // q.denominator)
            if fr != Fraction(1, 2) and abs(fr - Fraction(1, 2)) < Fraction(1, 10 ** 9):
                rep.add("ambiguous_skipped")
                continue
            n = round(d * sr)
            s = core.make_silence(d, sr, sw, ch)
            if s.data != b"\0" * (n * sw * ch) or not same_params(s, sr, sw, ch):
                rep.violation("silence d=%r sr=%d sw=%d ch=%d" % (d, sr, sw, ch),
                              "make_silence(%r) holds %d bytes, round(d*rate)=%d samples" % (d, len(s.data), n),
                              {"kind": "c17sil", "d": d, "sr": sr, "sw": sw, "ch": ch})
    # join over one-shot iterables (generator, iterator, map) equals join over the list
    some = [x for x in P if (x.sr, x.sw, x.ch) == (8, 2, 1)][:5]
    sil = core.make_silence(2 / 8, 8, 2, 1)
    want = sil.data.join(x.data for x in some)
    for name, it in (("generator", (x for x in some)), ("iter", iter(some)), ("map", map(lambda x: x, some)), ("tuple", tuple(some))):
        rep.add("evaluations")
        try:
            got = sil.join(it).data
        except Exception as exc:
            got = "raised %r" % (exc,)
        if got != want:
            rep.violation("join over " + name, "join over a %s gives %r, over the list %d bytes" % (
                name, len(got) if isinstance(got, bytes) else got, len(want)), {"kind": "c17misc"})
    # every division returns a fresh, correct list - whatever was done to an earlier result
    r = AR(content(9, 2, 1), 8, 2, 1)
    for mutate in ("pop", "reverse", "clear", "append"):
        rep.add("evaluations")
        first = r / 4
        getattr(first, mutate)(*((r,) if mutate == "append" else ()))
        again = AR(bytes(r.data), 8, 2, 1) / 4
        second = r / 4
        for res in (again, second):
            if len(res) != 4 or b"".join(x.data for x in res) != r.data:
                rep.violation("division after %s" % mutate, "after %s() on an earlier result, r/4 gives %d pieces holding %d bytes" % (
                    mutate, len(res), len(b"".join(x.data for x in res))), {"kind": "c17misc"})
                break
    rep.add("evaluations")
    try:
        r / 4.0
        rep.violation("division by float after int", "r / 4.0 accepted after r / 4", {"kind": "c17misc"})
    except TypeError:
        pass
    # augmented assignment builds a new region: other references to the left operand see no change
    rep.add("evaluations")
    parts = [AR(content(2, 2, 1, k), 8, 2, 1) for k in range(3)]
    keep = [bytes(x.data) for x in parts]
    acc = parts[0]
    alias = acc
    for x in parts[1:]:
        acc += x
    if [x.data for x in parts] != keep or alias.data != keep[0] or acc.data != b"".join(keep) or sum(parts).data != b"".join(keep):
        rep.violation("augmented assignment", "acc += r altered a region that is also referenced elsewhere (parts now %r bytes)" % (
            [len(x.data) for x in parts],), {"kind": "c17misc"})
    # + with a non-region
    rep.add("evaluations")
    try:
        P[5] + b"\0\0"
        rep.violation("add bytes", "region + bytes accepted", {"kind": "c17misc"})
    except TypeError:
        pass


# ---------------------------------------------------------------------------
# C18


def decode(data, sw, ch):
    smp = samples_of(data, sw, ch)
    return [[int.from_bytes(s[c * sw : (c + 1) * sw], "little", signed=True) for s in smp] for c in range(ch)]


def c18_work(task):
    sw, ch, sr, tier = task
    L = lib()
    auditok, AR = L["auditok"], L["AR"]
    from auditok.io import to_file, from_file

    cov = {"evaluations": 0, "distinct_nontrivial": 0, "samples": []}
    viol = []
    d = os.path.join(common.scratch_dir(), "c18_%d_%d_%d" % (sw, ch, sr))
    os.makedirs(d, exist_ok=True)

    def complain(key, msg, case):
        if len(viol) < 10:
            viol.append((key, msg, dict(case, kind="c18", sw=sw, ch=ch, sr=sr)))

    nmax = 6 if tier == "quick" else 10
    for n in range(0, nmax + 1):
        data = content(n, sw, ch)
        start = 0.5
        r = AR(data, sr, sw, ch, start)
        kw = dict(sr=sr, sw=sw, ch=ch)
        variants = []
        # writer x name/format
        for writer in ("to_file", "save", "save_path"):
            for ext, fmt in ((".wav", None), (".raw", None), ("", None), (".dat", "raw"), (".dat", "wav"), (".bin", "wave")):
                variants.append((writer, ext, fmt))
        for writer, ext, fmt in variants:
            name = os.path.join(d, "f_%d_%s%s%s" % (n, writer, "_" + fmt if fmt else "", ext))
            if os.path.exists(name):
                os.unlink(name)
            eff = fmt if fmt else (ext[1:] if ext else "raw")
            if eff == "wave":
                eff = "wav"
            if eff == "dat":
                continue
            case = {"n": n, "writer": writer, "ext": ext, "fmt": fmt}
            key = "roundtrip n=%d sw=%d ch=%d sr=%d %s %s %s" % (n, sw, ch, sr, writer, ext, fmt)
            try:
                if writer == "to_file":
                    to_file(data, name, fmt, **kw)
                    written = name
                elif writer == "save":
                    # (a dot inside an extension-less name would read as an extension: placeholders only with one)
                    tpl = name.replace("f_", "f_{start}_{end}_{duration:.3f}_", 1) if ext else name
                    written = r.save(tpl, fmt)
                    want_name = tpl.format(start=r.start, end=r.end, duration=r.duration)
                    if written != want_name or not os.path.exists(want_name):
                        complain(key, "save() returned %r, placeholders give %r" % (written, want_name), case)
                        continue
                else:
                    written = r.save(Path(name), fmt)
                    written = str(written)
                # exists_ok=False refuses to overwrite - also when the name comes from placeholders
                if writer == "save" and ext:
                    try:
                        r.save(tpl, fmt, exists_ok=False)
                        complain(key, "exists_ok=False overwrote the existing file named by the placeholders", case)
                    except FileExistsError:
                        pass
                if writer != "to_file":
                    try:
                        r.save(written if writer == "save" else Path(written), fmt, exists_ok=False)
                        complain(key, "exists_ok=False overwrote an existing file", case)
                    except FileExistsError:
                        pass
                for lazy in (False, True):
                    cov["evaluations"] += 1
                    lkw = dict(large_file=lazy)
                    if eff == "raw":
                        lkw.update(kw)
                        if fmt or not ext:
                            lkw["audio_format"] = "raw"
                    elif fmt:
                        lkw["audio_format"] = fmt
                    back = auditok.load(written, **lkw)
                    if n:
                        cov["distinct_nontrivial"] += 1
                    if back.data != data or not same_params(back, sr, sw, ch):
                        complain(key + " lazy=%s" % lazy, "read back %s (%r), wrote %s" % (
                            back.data.hex(), (back.sr, back.sw, back.ch), data.hex()), case)
                    src = from_file(written, **lkw)
                    src.open()
                    got = src.read(n + 5)
                    src.close()
                    if got != (data or None) or (src.sr, src.sw, src.ch) != (sr, sw, ch):
                        complain(key + " from_file lazy=%s" % lazy, "from_file gives %r" % (got,), case)
                if eff == "wav":
                    with wave.open(written, "rb") as fp:
                        hdr = (fp.getframerate(), fp.getsampwidth(), fp.getnchannels(), fp.getnframes())
                    if hdr != (sr, sw, ch, n):
                        complain(key, "wav header %r" % (hdr,), case)
            except Exception as exc:
                complain(key, "raised %r" % (exc,), case)
        # load(skip, max_read) == slicing
        instants = [0, 1 / sr, 2 / sr, 2.5 / sr, 3.5 / sr, (n - 1) / sr, n / sr, (n + 2) / sr, 0.6 / sr, 1.4 / sr,
                    0.15, 0.35, 0.95, 0.45, 0.235, 0.00134375, 1.5 / sr, 4.5 / sr]  # incl. ties: the statement says round(s*rate)
        instants = sorted(set(x for x in instants if x >= 0))
        rawf = os.path.join(d, "s_%d.raw" % n)
        wavf = os.path.join(d, "s_%d.wav" % n)
        to_file(data, rawf)
        to_file(data, wavf, **kw)
        smp = samples_of(data, sw, ch)
        for skip, mr in itertools.product(instants, [None] + instants):
            for src_kind in ("bytes", "raw", "wav", "raw_lazy", "wav_lazy"):
                cov["evaluations"] += 1
                a = round(skip * sr)  # R4: the statement names round(s*rate), float product included
                exp = b"".join(smp[a:] if mr is None else smp[a : a + round(mr * sr)])
                if exp:
                    cov["distinct_nontrivial"] += 1
                case = {"n": n, "skip": skip, "max_read": mr, "src": src_kind}
                key = "load n=%d sw=%d ch=%d sr=%d skip=%r max_read=%r src=%s" % (n, sw, ch, sr, skip, mr, src_kind)
                try:
                    if src_kind == "bytes":
                        got = auditok.load(data, skip=skip, max_read=mr, **kw)
                    elif src_kind.startswith("raw"):
                        got = auditok.load(rawf, skip=skip, max_read=mr, large_file=src_kind.endswith("lazy"), **kw)
                    else:
                        got = auditok.load(wavf, skip=skip, max_read=mr, large_file=src_kind.endswith("lazy"))
                    if got.data != exp or not same_params(got, sr, sw, ch):
                        complain(key, "load gives %s, full[round(s*r):+round(m*r)] is %s" % (got.data.hex(), exp.hex()), case)
                except Exception as exc:
                    complain(key, "load raised %r" % (exc,), case)
    cov["samples"].append({"sw": sw, "ch": ch, "sr": sr, "lengths": "0..%d" % nmax,
                           "example": "load(wav, skip=2.5/sr, max_read=1/sr, large_file=True)"})
    import shutil

    shutil.rmtree(d, ignore_errors=True)
    return {"cov": cov, "viol": viol}


def c18_large(task):
    """load(skip, max_read) around sizes where chunked implementations change behaviour (1024..65536 samples)."""
    sw, ch, big = task
    L = lib()
    auditok = L["auditok"]
    from auditok.io import to_file

    cov = {"evaluations": 0, "distinct_nontrivial": 0, "samples": []}
    viol = []
    sr = 8000
    n = 2 * big + 37
    bps = sw * ch
    data = b"".join(int((i * 7 + c) % 120 + 1).to_bytes(sw, "little", signed=True) for i in range(n) for c in range(ch))
    d = os.path.join(common.scratch_dir(), "c18L_%d_%d_%d" % (sw, ch, big))
    os.makedirs(d, exist_ok=True)
    wavf = os.path.join(d, "x.wav")
    to_file(data, wavf, sr=sr, sw=sw, ch=ch)
    for a in (big - 1, big, big + 1, 2 * big, 2 * big + 36):
        for m in (None, 1, big + 1):
            for kind in ("bytes", "wav", "wav_lazy"):
                cov["evaluations"] += 1
                cov["distinct_nontrivial"] += 1
                skip = a / sr
                mr = None if m is None else m / sr
                exp = data[a * bps :] if m is None else data[a * bps : (a + m) * bps]
                try:
                    if kind == "bytes":
                        got = auditok.load(data, skip=skip, max_read=mr, sr=sr, sw=sw, ch=ch)
                    else:
                        got = auditok.load(wavf, skip=skip, max_read=mr, large_file=kind.endswith("lazy"))
                    msg = None if got.data == exp else "load(skip=%d samples, max_read=%r samples) on %s starts at sample %s and holds %d samples (expected %d from sample %d)" % (
                        a, m, kind, (data.find(got.data[: 8 * bps]) // bps if got.data else None), len(got.data) // bps, len(exp) // bps, a)
                except Exception as exc:
                    msg = "load raised %r" % (exc,)
                if msg and len(viol) < 4:
                    viol.append(("load-large sw=%d ch=%d skip=%d max_read=%r src=%s" % (sw, ch, a, m, kind), msg,
                                 {"kind": "c18L", "sw": sw, "ch": ch, "big": big}))
    import shutil

    shutil.rmtree(d, ignore_errors=True)
    cov["samples"].append({"large": big, "sw": sw, "ch": ch, "skips_in_samples": [big - 1, big, big + 1, 2 * big]})
    return {"cov": cov, "viol": viol}


SAMPLE_ALPHABET = {1: [-128, -127, -100, -10, -1, 0, 1, 10, 100, 126, 127],
                   2: [-32768, -32767, -1000, -100, -10, -1, 0, 1, 10, 100, 1000, 32766, 32767],
                   4: [-2 ** 31, -2 ** 31 + 1, -1000, -100, -10, -1, 0, 1, 10, 100, 1000, 2 ** 31 - 2, 2 ** 31 - 1]}


def c18_numpy_large(rep):
    """numpy() on long multi-channel regions (value counts beyond 65536, channel counts that do not divide it)."""
    import array
    import numpy as np

    AR = lib()["AR"]
    for sw, ch, n in ((2, 3, 30011), (2, 5, 14000), (1, 6, 12000), (4, 7, 9400), (2, 2, 40000), (2, 1, 70000)):
        rep.add("evaluations")
        rep.add("distinct_nontrivial")
        data = big_content(n, sw, ch)
        flat = array.array({1: "b", 2: "h", 4: "i"}[sw])
        flat.frombytes(data)
        arr = AR(data, 8000, sw, ch).numpy()
        ok = tuple(arr.shape) == (ch, n)
        if ok:
            for c in range(ch):
                want = np.array(flat[c::ch], dtype=np.float64)
                if not (arr[c] == want).all():
                    bad = int(np.nonzero(arr[c] != want)[0][0])
                    rep.violation("numpy-large sw=%d ch=%d n=%d" % (sw, ch, n), "numpy()[%d][%d] is %r, sample value is %r" % (
                        c, bad, arr[c][bad], want[bad]), {"kind": "c18npL"})
                    break
        else:
            rep.violation("numpy-large sw=%d ch=%d n=%d" % (sw, ch, n), "numpy() shape %r" % (tuple(arr.shape),), {"kind": "c18npL"})


def c18_buffers(rep):
    """to_file() accepts bytes, bytearray, memoryview, array and numpy buffers: the file holds the same audio."""
    import array
    import numpy as np
    from auditok.io import to_file

    auditok = lib()["auditok"]
    d = os.path.join(common.scratch_dir(), "c18buf")
    os.makedirs(d, exist_ok=True)
    for sw, ch in ((2, 1), (2, 2), (4, 1), (1, 3), (4, 3)):
        for n in (1, 2, 3, 5, 8):
            data = content(n, sw, ch)
            code = {1: "b", 2: "h", 4: "i"}[sw]
            arr = array.array(code)
            arr.frombytes(data)
            bufs = {"bytearray": bytearray(data), "memoryview": memoryview(data), "array": arr,
                    "numpy": np.frombuffer(data, dtype={1: np.int8, 2: np.int16, 4: np.int32}[sw]).copy()}
            for kind, buf in bufs.items():
                for ext in (".wav", ".raw"):
                    rep.add("evaluations")
                    rep.add("distinct_nontrivial")
                    fn = os.path.join(d, "b%s" % ext)
                    try:
                        to_file(buf, fn, sr=10, sw=sw, ch=ch)
                        back = auditok.load(fn, sr=10, sw=sw, ch=ch)
                        msg = None if back.data == data else "to_file(%s of %d samples) -> %s reads back %d bytes, wrote %d" % (
                            kind, n, ext, len(back.data), len(data))
                    except Exception as exc:
                        msg = "to_file(%s) raised %r" % (kind, exc)
                    if msg:
                        rep.violation("tofile-buffer %s sw=%d ch=%d n=%d %s" % (kind, sw, ch, n, ext), msg, {"kind": "c18buf"})
    # the same containers above 16 MiB (directed large row): nothing is cut off
    big = (big_content(4099, 2, 1) * 2200)[: 2 * 9000001]
    arr = array.array("h")
    arr.frombytes(big)
    for kind, buf in (("numpy int16", np.frombuffer(big, dtype=np.int16)), ("array('h')", arr), ("memoryview of int16", memoryview(arr)), ("bytes", big)):
        for ext in (".raw", ".wav"):
            rep.add("evaluations")
            rep.add("large_rows_not_exhaustive")
            fn = os.path.join(d, "big%s" % ext)
            try:
                to_file(buf, fn, sr=16000, sw=2, ch=1)
                back = auditok.load(fn, sr=16000, sw=2, ch=1, large_file=(ext == ".wav"))
                msg = None if back.data == big else "reads back %d bytes, wrote %d" % (len(back.data), len(big))
            except Exception as exc:
                msg = "raised %r" % (exc,)
            if msg:
                rep.violation("tofile-buffer-large %s %s" % (kind, ext), "to_file(%s holding %d bytes) -> %s: %s" % (kind, len(big), ext, msg), {"kind": "c18buf"})
    import shutil

    shutil.rmtree(d, ignore_errors=True)


def c18_more(rep):
    import numpy as np
    from auditok.io import to_file

    L = lib()
    AR, auditok = L["AR"], L["auditok"]
    # the export reflects the bytes, whatever was done to an earlier export (of this region or an equal one)
    for data in (content(6, 2, 2), (big_content(4099, 2, 2) * 9)[: 4 * 33001]):  # a few samples, and more than 64 KiB
      r = AR(data, 10, 2, 2)
      want = np.array(decode(data, 2, 2), dtype=float)
      for how in ("numpy", "asarray", "equal region", "samples"):
        rep.add("evaluations")
        first = r.samples if how == "samples" else r.numpy()
        try:
            first *= 0
            first += 7
        except Exception:
            pass
        second = r.numpy() if how == "numpy" else (np.asarray(r) if how == "asarray" else (r.samples if how == "samples" else AR(bytes(data), 10, 2, 2).numpy()))
        if second.shape != want.shape or not (second == want).all():
            rep.violation("numpy export after mutation (%s, %d bytes)" % (how, len(data)), "after an earlier export of a %d-byte region was modified in place, %s gives other values (first: %r)" % (
                len(data), how, second.ravel()[:4].tolist()), {"kind": "c18more"})
    # skips shorter than half a sample, empty files, on lazily read files
    d = os.path.join(common.scratch_dir(), "c18more")
    os.makedirs(d, exist_ok=True)
    for sr in (10, 16000):
        for n in (0, 5):
            dat = content(n, 2, 1)
            wavf, rawf = os.path.join(d, "m.wav"), os.path.join(d, "m.raw")
            to_file(dat, wavf, sr=sr, sw=2, ch=1)
            to_file(dat, rawf)
            for skip in (0.3 / sr, 0.49 / sr, 2e-5 if sr == 16000 else 0.04, 1 / sr):
                for mr in (None, 2 / sr):
                    for kind in ("wav_lazy", "raw_lazy", "wav"):
                        rep.add("evaluations")
                        a = round(skip * sr)
                        smp = samples_of(dat, 2, 1)
                        exp = b"".join(smp[a:] if mr is None else smp[a : a + round(mr * sr)])
                        try:
                            if kind == "raw_lazy":
                                got = auditok.load(rawf, skip=skip, max_read=mr, large_file=True, sr=sr, sw=2, ch=1)
                            else:
                                got = auditok.load(wavf, skip=skip, max_read=mr, large_file=kind.endswith("lazy"))
                            msg = None if got.data == exp else "load(skip=%r, max_read=%r) on %s holds %s, expected %s" % (skip, mr, kind, got.data.hex(), exp.hex())
                        except Exception as exc:
                            msg = "load(skip=%r, max_read=%r) on %s (%d samples) raised %r" % (skip, mr, kind, n, exc)
                        if msg:
                            rep.violation("load tiny skip sr=%d n=%d skip=%r mr=%r %s" % (sr, n, skip, mr, kind), msg, {"kind": "c18more"})
    # a history on one path: a source object is made for the file, the file is then saved again (same size, other audio),
    # and only then is the source opened and read - what is read back is what was saved last
    from auditok.io import from_file

    for ext in ("wav", "raw"):
        for lazy in (True, False):
            for maker in ("before", "between"):
                path = os.path.join(d, "again." + ext)
                versions = [content(6, 2, 1), bytes(reversed(content(6, 2, 1))), content(8, 2, 1)[4:]]
                kw = {} if ext == "wav" else dict(sr=10, sw=2, ch=1)
                AR(versions[0], 10, 2, 1).save(path)
                src = from_file(path, large_file=lazy, **kw) if maker == "before" else None
                AR(versions[1], 10, 2, 1).save(path)
                if src is None:
                    src = from_file(path, large_file=lazy, **kw)
                AR(versions[2], 10, 2, 1).save(path)
                rep.add("evaluations")
                want = versions[2] if lazy else (versions[0] if maker == "before" else versions[1])  # in-memory loading reads at once
                try:
                    src.open()
                    got = src.read(-1)
                    src.close()
                    msg = None if got == want else "read back %r, last saved %r" % (got, want)
                    if msg is None and lazy:
                        AR(versions[1], 10, 2, 1).save(path)
                        src.open()
                        got = src.read(-1)
                        src.close()
                        msg = None if got == versions[1] else "after close, another save and reopening: read back %r, last saved %r" % (got, versions[1])
                except Exception as exc:
                    msg = "raised %r" % (exc,)
                if msg:
                    rep.violation("save-again %s lazy=%s source made %s" % (ext, lazy, maker),
                                  "%s file saved three times, %s source object made %s the saves, opened afterwards: %s" % (
                                      ext, "lazy" if lazy else "in-memory", maker, msg), {"kind": "c18more"})
    # names as users type them: bare relative names (written to the current directory), upper / mixed case extensions;
    # and wav files that carry other chunks around the audio
    from .chk_sources import write_wav_chunky

    cwd = os.getcwd()
    os.chdir(d)
    try:
        for name in ("clip.wav", "clip.raw", Path("clip2.wav"), "REC001.WAV", "Take2.Wav", "TAKE.RAW", "clip_{start}-{end}.wav"):
            rep.add("evaluations")
            reg = AR(content(6, 2, 1), 10, 2, 1, 0.5)
            try:
                got_name = reg.save(name)
                kw = dict(sr=10, sw=2, ch=1) if str(name).lower().endswith("raw") else {}
                msgs = []
                for lazy in (False, True):
                    back = auditok.load(got_name, large_file=lazy, **kw)
                    if back.data != reg.data or (back.sr, back.sw, back.ch) != (10, 2, 1):
                        msgs.append("%s load holds %d bytes at %r" % ("lazy" if lazy else "in-memory", len(back.data), (back.sr, back.sw, back.ch)))
                if not os.path.exists(os.path.join(d, str(name).format(start=reg.start, end=reg.end))):
                    msgs.append("no such file in the current directory")
                msg = "; ".join(msgs) or None
            except Exception as exc:
                msg = "raised %r" % (exc,)
            if msg:
                rep.violation("save/load name %s" % (name,), "region.save(%r) in the current directory, then load(): %s" % (name, msg), {"kind": "c18more"})
    finally:
        os.chdir(cwd)
    for (sw_, ch_) in ((1, 1), (2, 2), (1, 3)):
        dat = content(7, sw_, ch_)
        smp = samples_of(dat, sw_, ch_)
        path = os.path.join(d, "edited_x.wav")
        write_wav_chunky(path, dat, 10, sw_, ch_)
        for lazy in (False, True):
            for skip, mr in ((0, None), (0.2, None), (0.1, 0.3), (0, 0.7), (0.6, 0.5)):
                rep.add("evaluations")
                a = round(skip * 10)
                exp = b"".join(smp[a:] if mr is None else smp[a : a + round(mr * 10)])
                try:
                    back = auditok.load(path, skip=skip, max_read=mr, large_file=lazy)
                    msg = None if (back.data == exp and (back.sr, back.sw, back.ch) == (10, sw_, ch_)) else "holds %s, expected %s" % (back.data.hex(), exp.hex())
                except Exception as exc:
                    msg = "raised %r" % (exc,)
                if msg:
                    rep.violation("load chunky wav sw=%d ch=%d lazy=%s skip=%r mr=%r" % (sw_, ch_, lazy, skip, mr),
                                  "wav file with chunks before and after the audio, load(skip=%r, max_read=%r, large_file=%s): %s" % (skip, mr, lazy, msg),
                                  {"kind": "c18more"})
    # encoder keyword arguments given to save() describe no audio: the file carries the region's own parameters
    for extra in (dict(sampling_rate=30, sample_width=1, channels=2), dict(sr=30, sw=1, ch=2), dict(bitrate="64k")):
        rep.add("evaluations")
        reg = AR(content(6, 2, 1), 10, 2, 1)
        path = os.path.join(d, "extra.wav")
        try:
            reg.save(path, **extra)
            back = auditok.load(path)
            ok = back.data == reg.data and (back.sr, back.sw, back.ch) == (10, 2, 1)
            msg = None if ok else "read back %d bytes at (%d Hz, %d bytes, %d ch), saved %d bytes at (10 Hz, 2 bytes, 1 ch)" % (
                len(back.data), back.sr, back.sw, back.ch, len(reg.data))
        except Exception as exc:
            msg = "raised %r" % (exc,)
        if msg:
            rep.violation("save extra kwargs %s" % sorted(extra), "region.save(path, **%r): %s" % (extra, msg), {"kind": "c18more"})
    # file names: every placeholder is filled from the region's own start / end / duration
    for start, n in ((0.1, 2), (0.7, 1), (0.3, 3), (1.455, 10)):
        reg = AR(content(n, 2, 1), 10, 2, 1, start)
        for tpl in ("n_{duration}.wav", "n_{start}_{end}.wav", "n_{end}_{duration}.raw", "n_{duration:.20f}.wav"):
            rep.add("evaluations")
            want_name = os.path.join(d, tpl).format(start=reg.start, end=reg.end, duration=reg.duration)
            try:
                got_name = reg.save(os.path.join(d, tpl))
                ok = got_name == want_name and os.path.exists(want_name)
                msg = None if ok else "save(%r) with start=%r wrote %r, placeholders give %r" % (tpl, start, os.path.basename(got_name), os.path.basename(want_name))
            except Exception as exc:
                msg = "save(%r) raised %r" % (tpl, exc)
            if msg:
                rep.violation("save name %s start=%r n=%d" % (tpl, start, n), msg, {"kind": "c18more"})
    import shutil

    shutil.rmtree(d, ignore_errors=True)


def c18_numpy(rep):
    AR = lib()["AR"]
    for sw in (1, 2, 4):
        vals = SAMPLE_ALPHABET[sw]
        for ch in (1, 2, 3):
            for n in (0, 1, 2, 5):
                for rot in range(len(vals) if n else 1):
                    rep.add("evaluations")
                    seq = [[vals[(rot + i * ch + c) % len(vals)] for i in range(n)] for c in range(ch)]
                    data = b"".join(int(seq[c][i]).to_bytes(sw, "little", signed=True) for i in range(n) for c in range(ch))
                    r = AR(data, 8, sw, ch)
                    try:
                        arr = r.numpy()
                        import numpy as np

                        arr2 = np.asarray(r)
                        ok = tuple(arr.shape) == (ch, n) and all(
                            int(arr[c][i]) == seq[c][i] and arr[c][i] == seq[c][i] for c in range(ch) for i in range(n))
                        ok = ok and tuple(arr2.shape) == (ch, n) and (arr2 == arr).all()
                        msg = None if ok else "numpy() shape %r values %r, expected (%d,%d) %r" % (
                            tuple(arr.shape), arr.tolist(), ch, n, seq)
                    except Exception as exc:
                        msg = "numpy() raised %r" % (exc,)
                    if n:
                        rep.add("distinct_nontrivial")
                    if msg:
                        rep.violation("numpy sw=%d ch=%d n=%d rot=%d" % (sw, ch, n, rot), msg,
                                      {"kind": "c18np", "sw": sw, "ch": ch, "n": n, "rot": rot})


# ---------------------------------------------------------------------------


def run(prop, tier):
    lib()
    quick = tier == "quick"
    if prop == "C16":
        rep = common.Report(prop, tier, "bounded-exhaustive enumeration of regions x slice bounds against Python list slicing "
                            "of the sample sequence; exact rational oracle for the seconds/millis views")
        c16_type_errors(rep)
        c16_two_regions(rep)
        c16_view_lifetime(rep)
        c16_cross_format(rep)
        c16_numpy_bounds(rep)
        c16_huge(rep)
        nmax = 5 if quick else 12
        tasks = [("s", (sw, ch, nmax)) for sw, ch in FORMATS5] + [("c", (sw, ch)) for sw, ch in FORMATS5]
        tasks += [("L", (sw, ch)) for sw, ch in ((2, 2), (1, 3), (4, 1))]
        tasks += [("n", sr_) for sr_ in (7, 10, 100, 8000, 11025, 16000, 22050, 44100, 48000, 96000)]
        rates = [4, 8, 16, 10, 44100] if quick else [4, 8, 16, 32, 10, 44100, 3, 7, 100, 11025, 22050, 48000, 96000]
        tasks += [("v", (sr, tier)) for sr in rates]
        for part in common.pmap(_c16_dispatch, tasks):
            rep.merge(part)
        rep.cov["rule"] = ("one evaluation = one slice expression on one region compared with list slicing; non-trivial when "
                           "the expected slice is non-empty; all (region, bounds) pairs are distinct")
        rep.cov["bounds"] = {"samples": "0..%d" % nmax, "formats": FORMATS5, "rates_for_views": rates}
    elif prop == "C17":
        rep = common.Report(prop, tier, "explicit-state search over region values under +, *, /, join, slicing to a depth, "
                            "against sample lists; operands snapshotted around every operation; exhaustive pair tables")
        c17_misc(rep)
        c17_large(rep)
        c17_div_table(rep)
        c17_split_and_join(rep)
        depth = 3 if quick else 4
        nparts = 16
        for part in common.pmap(c17_work, [(depth, i, nparts) for i in range(nparts)]):
            rep.merge(part)
        rep.cov["rule"] = ("one evaluation = one operation applied to one region value reached by a chain of operations; "
                           "non-trivial when the result holds audio; states = distinct region values reached")
        rep.cov["bounds"] = {"depth": depth, "pool": "regions of 0..3 samples in 4 formats differing in exactly one parameter"}
    else:
        rep = common.Report(prop, tier, "bounded-exhaustive enumeration of contents x formats x writers x readers (eager/lazy) "
                            "and of load(skip,max_read) on/between/beyond sample instants against list slicing")
        c18_numpy(rep)
        c18_numpy_large(rep)
        c18_buffers(rep)
        c18_more(rep)
        tasks = [(sw, ch, sr, tier) for sw in (1, 2, 4) for ch in (1, 2, 3) for sr in ((10, 16000) if not quick else (10,))]
        if quick:
            tasks += [(2, 1, 16000, tier), (4, 2, 16000, tier)]
        ltasks = [("L", (sw, ch, big)) for (sw, ch) in ((2, 2), (1, 3), (2, 1)) for big in ((1024, 4096, 8192) if quick else (1024, 4096, 8192, 65536))]
        for part in common.pmap(_c18_dispatch, [("w", t) for t in tasks] + ltasks):
            rep.merge(part)
        rep.cov["rule"] = ("one evaluation = one write/read-back or one load(skip,max_read) compared byte for byte; non-trivial "
                           "when audio is expected; all distinct")
        rep.cov["bounds"] = {"samples": "0..6", "widths": [1, 2, 4], "channels": [1, 2, 3]}
    rep.cov["states"] = max(rep.cov.get("states", 0), rep.cov["evaluations"])
    rep.cov["transitions"] = max(rep.cov.get("transitions", 0), rep.cov["evaluations"])
    rep.cov["traces_validated_against_impl"] = rep.cov["evaluations"]
    return rep.finish()


def _c18_dispatch(t):
    return c18_work(t[1]) if t[0] == "w" else c18_large(t[1])


def _c16_dispatch(t):
    if t[0] == "c":
        return c16_chained(t[1])
    if t[0] == "L":
        return c16_large(t[1])
    if t[0] == "n":
        return c16_lengths(t[1])
    return c16_samples(t[1]) if t[0] == "s" else c16_views(t[1])


def replay(case):
    lib()
    AR = lib()["AR"]
    k = case["kind"]
    rep = common.Report("replay", "quick", "")
    if k == "c16s":
        data = content(case["n"], case["sw"], case["ch"])
        smp = samples_of(data, case["sw"], case["ch"])
        try:
            got = AR(data, 16, case["sw"], case["ch"])[case["a"] : case["b"]]
        except Exception as exc:
            return "raised %r" % (exc,)
        return None if got.data == b"".join(smp[case["a"] : case["b"]]) else "slice differs: %s" % got.data.hex()
    if k in ("c16v", "c16m"):
        part = c16_views((case["sr"], "quick"))
        for key, msg, c in part["viol"]:
            if c.get("a") == case["a"] and c.get("b") == case["b"] and c.get("n") == case["n"] and c["kind"] == k:
                return msg
        return part["viol"][0][1] if part["viol"] else None
    if k == "c16len2":
        part = c16_lengths(case["sr"])
        return part["viol"][0][1] if part["viol"] else None
    if k == "c16two":
        c16_two_regions(rep)
        return rep.violations[0][1] if rep.violations else None
    if k == "c16np":
        c16_numpy_bounds(rep)
        return rep.violations[0][1] if rep.violations else None
    if k == "c16H":
        c16_huge(rep)
        return rep.violations[0][1] if rep.violations else None
    if k == "c16L":
        part = c16_large((case["sw"], case["ch"]))
        return part["viol"][0][1] if part["viol"] else None
    if k == "c17L":
        c17_large(rep)
        return rep.violations[0][1] if rep.violations else None
    if k in ("c16life", "c17div", "c17saj", "c16cross"):
        {"c16life": c16_view_lifetime, "c17div": c17_div_table, "c17saj": c17_split_and_join, "c16cross": c16_cross_format}[k](rep)
        return rep.violations[0][1] if rep.violations else None
    if k == "c16c":
        part = c16_chained((case["sw"], case["ch"]))
        return part["viol"][0][1] if part["viol"] else None
    if k == "c16t":
        c16_type_errors(rep)
    elif k.startswith("c17") and k != "c17":
        c17_misc(rep)
    elif k == "c17":
        part = c17_work((4, 0, 1))
        return part["viol"][0][1] if part["viol"] else None
    elif k == "c18np":
        c18_numpy(rep)
    elif k == "c18":
        part = c18_work((case["sw"], case["ch"], case["sr"], "quick"))
        return part["viol"][0][1] if part["viol"] else None
    elif k == "c18more":
        c18_more(rep)
    elif k == "c18npL":
        c18_numpy_large(rep)
    elif k == "c18buf":
        c18_buffers(rep)
    elif k == "c18L":
        part = c18_large((case["sw"], case["ch"], case["big"]))
        return part["viol"][0][1] if part["viol"] else None
    elif k == "c16len":
        part = c16_samples((case["sw"], case["ch"], case["n"]))
        return part["viol"][0][1] if part["viol"] else None
    return rep.violations[0][1] if rep.violations else None

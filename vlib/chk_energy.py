"""C07: a window is active exactly when its log energy reaches the threshold (ENUM, exact arithmetic)."""

import itertools
from decimal import Decimal, getcontext
from fractions import Fraction

from . import common

getcontext().prec = 60

FULL = {1: [-128, -127, -100, -10, -1, 0, 1, 10, 100, 126, 127],
        2: [-32768, -32767, -10000, -1000, -100, -10, -1, 0, 1, 10, 100, 1000, 10000, 32766, 32767],
        4: [-2 ** 31, -2 ** 31 + 1, -100000, -1000, -100, -10, -1, 0, 1, 10, 100, 1000, 100000, 2 ** 31 - 2, 2 ** 31 - 1]}
MID = {1: [-128, -1, 0, 10, 127], 2: [-32768, -1, 0, 10, 1000, 32767], 4: [-2 ** 31, -1, 0, 10, 1000, 2 ** 31 - 1]}
SMALL = {1: [-128, 0, 100], 2: [-32768, 0, 100], 4: [-2 ** 31, 0, 100]}

FIXED_THR = [-200, -200.5, -1, 0, 20, 40, 42.14419939295739, 50, 60, 80, 90.3, 186.6, 200]

_L = {}


def lib():
    if not _L:
        common.import_auditok()
        from auditok.util import AudioEnergyValidator

        _L["AEV"] = AudioEnergyValidator
    return _L


def selectors(ch):
    return [None, "any", "mix", "avg", "average"] + list(range(-ch - 1, ch + 1)) + ["foo", 1.5]


def selector_valid(sel, ch):
    if ch == 1:
        return True
    if sel in (None, "any", "mix", "avg", "average"):
        return True
    if isinstance(sel, int) and not isinstance(sel, bool):
        return -ch <= sel < ch
    return False


def mean_square(window, sel, ch):
    """window: list of samples, each a tuple of ch ints.  Exact mean square (Fraction)."""
    n = len(window)
    chans = [[s[c] for s in window] for c in range(ch)]
    if ch == 1:
        return Fraction(sum(x * x for x in chans[0]), n)
    if sel in (None, "any"):
        return max(Fraction(sum(x * x for x in cc), n) for cc in chans)
    if sel in ("mix", "avg", "average"):
        mixed = [Fraction(sum(s), ch) for s in window]
        return sum(x * x for x in mixed) / n
    return Fraction(sum(x * x for x in chans[sel]), n)


def exact_db(ms):
    if ms == 0:
        return Decimal(-200)
    d = Decimal(ms.numerator) / Decimal(ms.denominator)
    return 10 * d.log10()


def expected(ms, db, thr):
    """True / False / None (ambiguous: within 1e-9 of the boundary without being on it)."""
    if isinstance(thr, float) and (thr != thr or thr in (float("inf"), float("-inf"))):
        # ">= threshold" in IEEE arithmetic: never for NaN and +inf, always for -inf
        return thr == float("-inf")
    t = Decimal(thr)
    diff = db - t
    if abs(diff) >= Decimal("1e-9"):
        return diff > 0
    # on or next to the boundary: decide exactly when 10^(thr/10) is rational
    if ms == 0:
        return t <= -200 if t == -200 else None
    q = Fraction(thr) / 10
    if q.denominator == 1:
        p = q.numerator
        bound = Fraction(10) ** p
        return ms >= bound
    return None


def encode(window, sw):
    return b"".join(int(x).to_bytes(sw, "little", signed=True) for s in window for x in s)


QUICK = [False]
MID_Q = {1: [-128, -1, 0, 10, 127], 2: [-32768, -1, 0, 10, 32767], 4: [-2 ** 31, -1, 0, 10, 2 ** 31 - 1]}
QUICK_THR = [-200, 0, 50, 90.3]


def windows_for(sw, ch, n):
    if QUICK[0] and n * ch == 6:
        alpha = MID_Q[sw]
    elif ch == 1:
        alpha = FULL[sw]
    elif n * ch <= 4:
        alpha = FULL[sw] if n * ch <= 3 else MID[sw] + [FULL[sw][1]]
    elif n * ch <= 6:
        alpha = MID[sw]
    else:
        alpha = SMALL[sw]
    for flat in itertools.product(alpha, repeat=n * ch):
        yield [tuple(flat[i * ch : (i + 1) * ch]) for i in range(n)]


def work(task):
    sw, ch, n, stripe, nstripes, quick = task
    QUICK[0] = quick
    AEV = lib()["AEV"]
    cov = {"evaluations": 0, "distinct_nontrivial": 0, "ambiguous_skipped": 0, "samples": [], "windows": 0,
           "boundary_cases_exactly_on_threshold": 0}
    viol = []
    sels = selectors(ch)
    cache = {}
    top = 2 ** (8 * sw - 1) - 1
    prime_loud = encode([tuple([top] * ch)] * (n + 3), sw)
    prime_quiet = encode([tuple([0] * ch)] * (n + 2), sw)

    def validator(thr, sel):
        k = (thr, sel if not isinstance(sel, float) else ("f", sel))
        if k not in cache:
            if len(cache) > 50000:
                cache.clear()
            # the documented default (None) written by omission for every other threshold, and positionally for 'mix'
            if sel is None and int(thr * 2) % 2 == 0:
                cache[k] = AEV(thr, sw, ch)
            elif sel == "mix":
                cache[k] = AEV(thr, sw, ch, sel)
            else:
                cache[k] = AEV(thr, sw, ch, use_channel=sel)
        return cache[k]

    # selection errors (once per task)
    if stripe == 0:
        for sel in sels:
            cov["evaluations"] += 1
            ok = selector_valid(sel, ch)
            try:
                AEV(50, sw, ch, use_channel=sel)
                raised = None
            except ValueError:
                raised = "ValueError"
            except Exception as exc:
                raised = repr(exc)
            if ok and raised or (not ok and raised != "ValueError"):
                viol.append(("selector sw=%d ch=%d sel=%r" % (sw, ch, sel),
                             "use_channel=%r with %d channel(s): %s, statement says %s" % (
                                 sel, ch, "raised " + raised if raised else "accepted", "accept" if ok else "ValueError"),
                             {"kind": "sel", "sw": sw, "ch": ch, "sel": sel}))
    for wi, window in enumerate(windows_for(sw, ch, n)):
        if wi % nstripes != stripe:
            continue
        cov["windows"] += 1
        data = encode(window, sw)
        for sel in sels:
            if not selector_valid(sel, ch):
                continue
            if ch == 1 and sel not in (None, 0, "mix", "foo"):
                continue  # single channel ignores the selection: a few representatives
            ms = mean_square(window, sel if ch > 1 else None, ch)
            db = exact_db(ms)
            near = float(db)
            thrs = (QUICK_THR if QUICK[0] else FIXED_THR) + [near, near + 1e-6, near - 1e-6]
            prev = None
            for thr in sorted(thrs):
                cov["evaluations"] += 1
                exp = expected(ms, db, thr)
                try:
                    v = validator(thr, sel)
                    if wi % 4 == 0:
                        # history must not matter: first a longer loud window, a longer silent one
                        v.is_valid(prime_loud)
                        v.is_valid(prime_quiet)
                    got = bool(v.is_valid(data))
                except Exception as exc:
                    got = "raised %r" % (exc,)
                if exp is None:
                    cov["ambiguous_skipped"] += 1
                else:
                    if abs(db - Decimal(thr)) < Decimal("1e-9"):
                        cov["boundary_cases_exactly_on_threshold"] += 1
                    if exp:
                        cov["distinct_nontrivial"] += 1
                    if got != exp and len(viol) < 12:
                        viol.append(("window sw=%d ch=%d %r sel=%r thr=%r" % (sw, ch, window, sel, thr),
                                     "is_valid gives %r; exact energy %.12f dB vs threshold %r means %r" % (
                                         got, float(db), thr, exp),
                                     {"kind": "win", "sw": sw, "ch": ch, "window": [list(s) for s in window],
                                      "sel": sel, "thr": thr}))
                # raising the threshold can only turn active into inactive
                if isinstance(got, bool):
                    if prev is False and got is True and len(viol) < 12:
                        viol.append(("monotone sw=%d ch=%d %r sel=%r thr=%r" % (sw, ch, window, sel, thr),
                                     "inactive at a lower threshold but active at %r" % thr,
                                     {"kind": "win", "sw": sw, "ch": ch, "window": [list(s) for s in window],
                                      "sel": sel, "thr": thr}))
                    prev = got
    if stripe == 0:
        w = next(iter(windows_for(sw, ch, n)))
        cov["samples"].append({"sw": sw, "ch": ch, "window_samples": n, "first_window": [list(s) for s in w],
                               "selectors": [repr(s) for s in sels]})
    return {"cov": cov, "viol": viol}


def as_buffer(data, sw, kind):
    """The same window handed over as another bytes-like / buffer type."""
    import array

    if kind == "bytearray":
        return bytearray(data)
    if kind == "memoryview":
        return memoryview(data)
    code = {1: "b", 2: "h", 4: "i"}[sw]
    if kind == "array":
        a = array.array(code)
        a.frombytes(data)
        return a
    import numpy as np

    return np.frombuffer(data, dtype={1: np.int8, 2: np.int16, 4: np.int32}[sw]).copy()


def large_windows(rep):
    """Large rows: windows longer than 8192 / 65536 samples whose parts differ in level, and windows given as
    bytearray / memoryview / array / numpy buffers with odd sample counts."""
    AEV = lib()["AEV"]

    def judge(window, sw, ch, sel, thr, data, tag):
        ms = mean_square(window, sel if ch > 1 else None, ch)
        db = exact_db(ms)
        exp = expected(ms, db, thr)
        rep.add("evaluations")
        rep.add("large_rows_not_exhaustive")
        if exp is None:
            rep.add("ambiguous_skipped")
            return
        try:
            got = bool(AEV(thr, sw, ch, use_channel=sel).is_valid(data))
        except Exception as exc:
            got = "raised %r" % (exc,)
        if exp:
            rep.add("distinct_nontrivial")
        if got != exp:
            rep.violation("window-large %s sw=%d ch=%d sel=%r thr=%r" % (tag, sw, ch, sel, thr),
                          "%s: is_valid gives %r; exact energy %.9f dB vs threshold %r means %r" % (tag, got, float(db), thr, exp),
                          {"kind": "winL"})

    for sw in (1, 2, 4):
        top = 2 ** (8 * sw - 1) - 1
        loud, quiet = max(100, top // 3), 3
        for ch in (1, 2):
            for (na, va, nb, vb) in ((8192, quiet, 200, loud), (16384, loud, 1, 0), (8191, quiet, 2, loud), (65536, quiet, 777, loud),
                                     (8192, loud, 8192, quiet), (40000, quiet, 25537, loud)):
                window = [tuple([va - k for k in range(ch)])] * na + [tuple([vb] * ch)] * nb
                data = encode(window, sw)
                for sel in ([None] if ch == 1 else [None, "mix", 0, -1]):
                    ms = mean_square(window, sel if ch > 1 else None, ch)
                    e = float(exact_db(ms))
                    for thr in (e - 0.5, e + 0.5, 20 * __import__("math").log10(max(va, 1)) + 0.2):
                        judge(window, sw, ch, sel, thr, data, "%d x %d + %d x %d" % (na, va, nb, vb))
        # other buffer types, odd and even sample counts, a tail that differs from the rest
        for ch in (1, 2):
            for n in (1, 2, 3, 5, 8):
                window = [tuple([3] * ch)] * (n - 1) + [tuple([loud] * ch)]
                data = encode(window, sw)
                ms = mean_square(window, None, ch)
                e = float(exact_db(ms))
                for kind in ("bytearray", "memoryview", "array", "numpy"):
                    buf = as_buffer(data, sw, kind)
                    for thr in (e - 1, e + 1):
                        judge(window, sw, ch, None, thr, buf, "%s of %d samples" % (kind, n))


NWIN = [1]  # windows judged by each of the two threads (thorough: 2)


def work_shared_validator(task):
    """One validator object judged from two threads at once (the same object handed to two pipelines): every schedule
    with at most `bound` preemptions at line granularity inside util.py / signal.py; each thread gets the verdicts its
    own windows deserve."""
    sw, ch, sel, bound = task
    from . import sched
    from auditok import workers as w

    sched.install()
    AEV = lib()["AEV"]
    loud = encode([tuple([3000 + 7 * c for c in range(ch)])] * 4, sw) if sw > 1 else encode([tuple([100] * ch)] * 4, sw)
    quiet = encode([tuple([1] * ch)] * 4, sw)
    want = (bool(AEV(50, sw, ch, use_channel=sel).is_valid(loud)), bool(AEV(50, sw, ch, use_channel=sel).is_valid(quiet)))

    class Job(w.Worker):
        def __init__(self, v, windows):
            self.v, self.windows, self.res = v, windows, None
            super().__init__()

        def _process_message(self, message):
            pass

        def run(self):
            self.res = [bool(self.v.is_valid(x)) for x in self.windows]

    class Ctx:
        pass

    def make():
        ctx = Ctx()
        v = AEV(50, sw, ch, use_channel=sel)
        ctx.a, ctx.b = Job(v, [loud] * NWIN[0]), Job(v, [quiet] * NWIN[0])

        def main():
            ctx.a.start()
            ctx.b.start()
            ctx.a.join()
            ctx.b.join()

        return main, ctx

    def check(ex, ctx):
        if ex.outcome != "done":
            return "%s: the two judging threads never end" % ex.outcome
        for t in ex.th:
            if t.crash is not None:
                return "a judging thread died with %r" % (t.crash,)
        if ctx.a.res != [want[0]] * NWIN[0] or ctx.b.res != [want[1]] * NWIN[0]:
            return ("one validator used by two threads: the thread judging loud windows got %r, the one judging quiet windows %r; "
                    "judged alone they are %r and %r" % (ctx.a.res, ctx.b.res, want[0], want[1]))
        return None

    old = sched.TRACE_FILES[0]
    sched.TRACE_FILES[0] = ("auditok/util.py", "auditok/signal.py")
    try:
        st = sched.explore(make, check, line_mode=True, preemption_bound=bound, max_seconds=60)
    finally:
        sched.TRACE_FILES[0] = old
    viol = []
    for trace, msg, labels in st.violations[:1]:
        viol.append(("shared-validator sw=%d ch=%d sel=%r schedule=%s" % (sw, ch, sel, ".".join(map(str, trace))), msg,
                     {"kind": "sharedval", "sw": sw, "ch": ch, "sel": sel, "bound": bound}))
    cov = {"evaluations": st.executions, "shared_validator_schedules": st.executions, "distinct_nontrivial": st.executions}
    if st.cap_hit:
        cov["caps_hit"] = ["shared validator sw=%d ch=%d: %s" % (sw, ch, st.cap_hit)]
        cov["exhaustive"] = False
    return {"cov": cov, "viol": viol}


def work_through_split(sw):
    rep = common.Report("C07", "quick", "")
    if isinstance(sw, tuple):
        # the caller's numeric error policy is part of the environment: floating-point errors raise, warnings are errors
        import warnings

        import numpy as np

        with np.errstate(all="raise"):
            with warnings.catch_warnings():
                warnings.simplefilter("error")
                through_split(rep, (sw[1],))
    else:
        through_split(rep, (sw,))
    cov = {k: rep.cov[k] for k in ("evaluations", "distinct_nontrivial", "ambiguous_skipped", "through_split") if k in rep.cov}
    return {"cov": cov, "viol": rep.violations, "nviol": rep.nviol}


def _dispatch(task):
    if task[0] == "ts":
        return work_through_split(task[1])
    if task[0] == "sv":
        return work_shared_validator(task[1])
    return work(task)


def through_split(rep, widths=(1, 2, 4)):
    """The validator split() / AudioRegion.split() build from energy_threshold|eth and use_channel|uc is the same
    validator: a stream of one window is a region exactly when the window is active (thresholds include 0, 0.0,
    negative values and the documented default 50 written by omission)."""
    common.import_auditok()
    from auditok import core

    core.plot = lambda *a, **k: None  # split_and_plot / splitp: split, draw (stubbed out), return the regions
    rate = 10
    for sw in widths:
        for ch in (1, 2):
            alpha = MID_Q[sw] + ([100, 400] if sw > 1 else [100])
            if ch == 2:
                alpha = [alpha[0], 0, 10, alpha[-1]]
            for flat in itertools.product(alpha, repeat=2 * ch):
                window = [tuple(flat[i * ch : (i + 1) * ch]) for i in range(2)]
                data = encode(window, sw)
                for sel in ([None] if ch == 1 else [None, "mix", 0, -1]):
                    ms = mean_square(window, sel, ch)
                    db = exact_db(ms)
                    for ti, thr in enumerate((None, 0, 0.0, -1, -200, 20, 50.0, float("nan"), float("inf"), float("-inf"), -250)):
                        exp = expected(ms, db, 50 if thr is None else thr)
                        if exp is None:
                            rep.add("ambiguous_skipped")
                            continue
                        kw = dict(min_dur=0.2, max_dur=0.2, max_silence=0, sr=rate, sw=sw, ch=ch)
                        short = (ti + len(flat) + flat[0]) % 2
                        kw["aw" if short else "analysis_window"] = 0.2
                        if thr is not None:
                            kw["eth" if short else "energy_threshold"] = thr
                        if sel is not None:
                            kw["uc" if short else "use_channel"] = sel
                        for how in ("function", "method", "validator", "splitp"):
                            if how == "validator" and thr is None:
                                continue
                            rep.add("evaluations")
                            rep.add("through_split")
                            rep.add("distinct_nontrivial", int(exp))
                            try:
                                if how == "validator":
                                    v_ = lib()["AEV"](thr, sw, ch) if sel is None else lib()["AEV"](thr, sw, ch, use_channel=sel)
                                    regs = [data] if v_.is_valid(data) else []
                                elif how == "splitp":
                                    k2 = {k: v for k, v in kw.items() if k not in ("sr", "sw", "ch")}
                                    regs = list(core.AudioRegion(data, rate, sw, ch).split_and_plot(show=False, **k2))
                                elif how == "function":
                                    regs = list(core.split(data, **kw))
                                else:
                                    k2 = {k: v for k, v in kw.items() if k not in ("sr", "sw", "ch")}
                                    regs = list(core.AudioRegion(data, rate, sw, ch).split(**k2))
                                got = len(regs) == 1 and bytes(regs[0]) == data
                                if len(regs) > 1 or (regs and not got):
                                    got = "regions %r" % (regs,)
                            except Exception as exc:
                                got = "raised %r" % (exc,)
                            if got != exp:
                                rep.violation("split-validator sw=%d ch=%d window=%s sel=%r thr=%r how=%s" % (sw, ch, window, sel, thr, how),
                                              "split (%s) of the single window %s (%d-byte samples, selection %r, threshold %s%s): %s, exact "
                                              "decision is %s (%.6f dB)" % (how, window, sw, sel, "default 50" if thr is None else repr(thr),
                                                                            ", short names" if short else "",
                                                                            "a region" if got is True else "no region" if got is False else got,
                                                                            "active" if exp else "not active", float(db)),
                                              {"kind": "split_validator"})
                                return


def run(prop, tier):
    lib()
    rep = common.Report(prop, tier, "bounded-exhaustive enumeration of windows over a sample alphabet x thresholds x channel "
                        "selections against an exact rational/60-digit-decimal oracle, incl. windows exactly on a threshold")
    quick = tier == "quick"
    QUICK[0] = quick
    tasks = []
    for sw in (1, 2, 4):
        for ch in (1, 2, 3):
            for n in ((1, 2, 3) if quick else (1, 2, 3, 4)):
                if n == 4 and ch == 3:
                    continue
                if quick and n == 3 and ch == 3 and sw != 2:
                    continue  # 9-value windows: 16-bit only in the quick tier
                size = sum(1 for _ in windows_for(sw, ch, n)) if n * ch <= 4 else 20000
                ns = max(1, min(16, size // 1500))
                for s in range(ns):
                    tasks.append((sw, ch, n, s, ns, quick))
    NWIN[0] = 1 if quick else 2
    rep.cov["rule"] = ("one evaluation = one is_valid() call (window, threshold, selection) compared with the exact decision, or "
                       "one constructor accept/reject decision; non-trivial when the window is expected active; windows are "
                       "all tuples over the per-width alphabet (full alphabet for <=3 values per window, reduced beyond)")
    rep.cov["bounds"] = {"widths": [1, 2, 4], "channels": [1, 2, 3], "window_samples": "1..3" if quick else "1..4",
                         "thresholds": (QUICK_THR if quick else FIXED_THR) + ["exact energy", "exact energy +-1e-6"]}
    large_windows(rep)
    tasks = [("ts", sw_) for sw_ in (1, 2, 4)] + [("ts", ("strict", 2))] + [("sv", (sw_, ch_, sel_, 2)) for (sw_, ch_, sel_) in ((2, 1, None), (2, 2, None), (2, 2, "mix"), (1, 2, 1))] + tasks
    for part in common.pmap(_dispatch, tasks):
        rep.merge(part)
    rep.cov["states"] = rep.cov.get("windows", 0)
    rep.cov["transitions"] = rep.cov["evaluations"]
    rep.cov["traces_validated_against_impl"] = rep.cov["evaluations"]
    rep.assumptions += ["sample values outside the alphabet and windows longer than 4 samples are not explored; the "
                        "computation has no data-dependent branch other than the -200 dB floor",
                        "decisions within 1e-9 dB of the threshold without being exactly on it are counted as ambiguous"]
    return rep.finish()


def replay(case):
    AEV = lib()["AEV"]
    if case["kind"] == "sharedval":
        part = work_shared_validator((case["sw"], case["ch"], case["sel"], case["bound"]))
        return part["viol"][0][1] if part["viol"] else None
    if case["kind"] == "split_validator":
        rep = common.Report("C07", "quick", "")
        through_split(rep)
        return rep.violations[0][1] if rep.violations else None
    if case["kind"] == "winL":
        rep = common.Report("C07", "quick", "")
        large_windows(rep)
        return rep.violations[0][1] if rep.violations else None
    if case["kind"] == "sel":
        ok = selector_valid(case["sel"], case["ch"])
        try:
            AEV(50, case["sw"], case["ch"], use_channel=case["sel"])
            raised = False
        except ValueError:
            raised = True
        except Exception:
            raised = None
        return None if (ok and raised is False) or (not ok and raised is True) else "selection accept/reject differs"
    window = [tuple(s) for s in case["window"]]
    sw, ch, sel, thr = case["sw"], case["ch"], case["sel"], case["thr"]
    ms = mean_square(window, sel if ch > 1 else None, ch)
    db = exact_db(ms)
    msgs = []
    prev = None
    for t in sorted(FIXED_THR + [thr]):
        exp = expected(ms, db, t)
        try:
            got = bool(AEV(t, sw, ch, use_channel=sel).is_valid(encode(window, sw)))
        except Exception as exc:
            got = "raised %r" % (exc,)
        if exp is not None and got != exp:
            msgs.append("thr=%r: is_valid %r, exact decision %r (%.9f dB)" % (t, got, exp, float(db)))
        if prev is False and got is True:
            msgs.append("not monotone at thr=%r" % t)
        prev = got if isinstance(got, bool) else prev
    return "; ".join(msgs) or None
